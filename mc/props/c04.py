"""C04 - only coherent, untampered file sets open as a record (fault enumeration).

For a family of valid committed records: every single corruption from the catalogue is applied to a
copy of the file set and `Record(files, 'r')` must raise iff the set is no longer coherent.
"""
from __future__ import annotations

import mc.env as env  # noqa: F401

import os
import shutil
import time
from pathlib import Path

from mc import ih5lib, parallel, treeexp
from mc.impl import ih5

worker_init = treeexp.worker_init
expand_fast = ih5lib.expand_fast
init_key_fast = ih5lib.init_key_fast

UB = 1024


def _viol(kind, detail, cfg_name, hist, fault):
    return {
        "sig": {"kind": kind, "cls": treeexp.CFGS[cfg_name]["kind"], "fault": fault[0] if fault else None},
        "what": detail,
        "input": {"cfg": cfg_name, "history": hist, "fault": fault, "seed": env.seed()},
    }


def _build_committed(kind, hist, d, name="rec"):
    rec, _ = ih5lib.build(kind, hist, name=name, d=d)
    rec.commit_patch()
    view = ih5lib.dump(rec)
    files = [Path(p) for p in rec.ih5_files]
    rec.close()
    return files, view


def _ub_read(path):
    import json

    with open(path, "rb") as f:
        head = f.read(UB)
    lines = head.split(b"\n", 2)
    assert lines[0] == b"ih5_v01", lines[0]
    return json.loads(lines[2].split(b"\x00", 1)[0])


def _ub_write(path, doc):
    import json

    data = b"ih5_v01\n1024\n" + json.dumps(doc).encode() + b"\x00"
    assert len(data) < UB
    with open(path, "r+b") as f:
        f.write(data)


def _opens(cls, files, **kw):
    """Try to open; returns (True, dump) or (False, error text)."""
    try:
        with env.watchdog(20):
            r = cls(list(files), "r", **kw)
    except env.StepTimeout:
        return None, "open did not terminate"
    except BaseException as e:  # AssertionError etc. count as refusal, too
        if isinstance(e, (KeyboardInterrupt, SystemExit)):
            raise
        return False, f"{type(e).__name__}"
    try:
        try:
            v = ih5lib.dump(r)
        except Exception as e:
            v = f"dump failed: {type(e).__name__}"
        return True, v
    finally:
        try:
            r.close()
        except Exception:
            pass


def check_bytes(task):
    """All single-byte corruptions of one file in a byte range. Returns (viol|None, n_faults)."""
    cfg_name, hist, fidx, lo, hi, manifest = task[:6]
    baseless = len(task) > 6 and task[6]  # open the set without its base (allow_baseless=True)
    cfg = treeexp.CFGS[cfg_name]
    kind = cfg["kind"]
    cls = ih5.record_class(kind)
    d = env.fresh_dir("b")
    n = 0
    try:
        files, view = _build_committed(kind, hist, d)
        ok, v = _opens(cls, files)
        if ok is not True or v != view:
            return _viol("valid-set-refused", f"untouched record does not open / differs: {v if ok is not True else 'view'}", cfg_name, hist, None), 0
        allfiles = files
        kw = {}
        if baseless:
            files, kw = files[1:], {"allow_baseless": True}
            fidx -= 1
            ok, v = _opens(cls, files, **kw)
            if ok is not True:
                return _viol("valid-set-refused", f"untouched base-less set does not open with allow_baseless=True: {v}", cfg_name, hist, None), 0
        target = Path(str(files[fidx]) + "mf.json") if manifest else files[fidx]
        data = bytearray(target.read_bytes())
        start = 0 if manifest else UB
        lo = max(lo, start)
        hi = min(hi, len(data))
        with open(target, "r+b") as f:
            for pos in range(lo, hi):
                orig = data[pos]
                variants = [("xor", orig ^ 0xFF), ("inc", (orig + 1) & 0xFF)]
                if manifest:
                    variants.append(("case", orig ^ 0x20))  # letter case flip: survives many parsers
                for variant, newb in variants:
                    f.seek(pos)
                    f.write(bytes([newb]))
                    f.flush()
                    n += 1
                    ok, v = _opens(cls, files, **kw)
                    if ok is not False:
                        f.seek(pos)
                        f.write(bytes([orig]))
                        f.flush()
                        what = "payload" if not manifest else "manifest"
                        return (
                            _viol(
                                f"corrupt-{what}-byte-accepted",
                                f"{what} byte {pos} of container #{fidx + (1 if baseless else 0)} ({variant}) altered, {'base-less set (allow_baseless=True)' if baseless else 'record'} still opens" + ("" if ok else f" ({v})"),
                                cfg_name,
                                hist,
                                ["byte", fidx + (1 if baseless else 0), pos, variant, bool(manifest), bool(baseless)],
                            ),
                            n,
                        )
                f.seek(pos)
                f.write(bytes([orig]))
                f.flush()
        return None, n
    finally:
        env.rmtree(d)


def file_sizes(task):
    cfg_name, hist = task
    cfg = treeexp.CFGS[cfg_name]
    d = env.fresh_dir("z")
    try:
        files, _ = _build_committed(cfg["kind"], hist, d)
        out = [os.path.getsize(f) for f in files]
        ms = [os.path.getsize(str(f) + "mf.json") if os.path.exists(str(f) + "mf.json") else 0 for f in files]
        return out, ms
    finally:
        env.rmtree(d)


OTHER = [["set", "/q", "abs"], ["B"], ["grp", "/r", "abs"], ["B"], ["set", "/r/s", "abs"], ["B"], ["sa", "/", "t", "abs"]]


def check_struct(task):
    """All structural faults for one record. Returns (viol|None, n_faults, n_positive)."""
    cfg_name, hist = task[0], task[1]
    only = task[2] if len(task) > 2 else None
    cfg = treeexp.CFGS[cfg_name]
    kind = cfg["kind"]
    cls = ih5.record_class(kind)
    d = env.fresh_dir("s")
    od = env.fresh_dir("o")
    n = pos = 0
    try:
        files, view = _build_committed(kind, hist, d)
        nc = len(files)
        # views at each earlier commit: rebuild prefixes
        prefix_views = []
        bidx = [i for i, o in enumerate(hist) if o[0] == "B"]
        for k in range(nc - 1):
            pd = env.fresh_dir("p")
            try:
                _, pv = _build_committed(kind, hist[: bidx[k]], pd)
                prefix_views.append(pv)
            finally:
                env.rmtree(pd)
        prefix_views.append(view)
        # another record with the same number of containers
        oh = OTHER[: 2 * nc - 1]
        ofiles, _ = _build_committed(kind, oh, od, name="other")

        def side(p):
            return Path(str(p) + "mf.json")

        def fresh_copy():
            cd = env.fresh_dir("c")
            out = []
            for f in files:
                shutil.copy(f, cd)
                if side(f).exists():
                    shutil.copy(side(f), cd)
                out.append(Path(cd) / f.name)
            return cd, out

        faults = []  # (descr, function(copy files) -> list of files to open, expect_open(bool), expected view or None)

        def expect_fail(descr, fn):
            faults.append((descr, fn, False, None))

        def expect_ok(descr, fn, v):
            faults.append((descr, fn, True, v))

        # positive controls: every prefix of the chain opens and shows the state at that commit
        for k in range(nc):
            expect_ok(["prefix", k + 1], lambda cf, k=k: cf[: k + 1], prefix_views[k])
        # removal of each chain element but the newest
        for k in range(nc - 1):
            expect_fail(["remove", k], lambda cf, k=k: cf[:k] + cf[k + 1 :])
        # truncation / extension of every committed container
        for k in range(nc):
            size = os.path.getsize(files[k])
            lens = sorted(set([0, 1, 8, 511, 512, 513] + list(range(UB - 8, UB + 9)) + list(range(size - 8, size)) + [size // 2, UB + (size - UB) // 2]))
            for L in lens:
                if 0 <= L < size:

                    def trunc(cf, k=k, L=L):
                        with open(cf[k], "r+b") as f:
                            f.truncate(L)
                        return cf

                    expect_fail(["truncate", k, L], trunc)
            for extra in range(1, 9):
                for fill in (0, 0xFF):

                    def ext(cf, k=k, extra=extra, fill=fill):
                        with open(cf[k], "ab") as f:
                            f.write(bytes([fill]) * extra)
                        return cf

                    expect_fail(["extend", k, extra, fill], ext)
        # substitution by the same-index container of another record
        for k in range(nc):

            def subst(cf, k=k):
                shutil.copy(ofiles[k], cf[k])
                if side(ofiles[k]).exists():
                    shutil.copy(side(ofiles[k]), side(cf[k]))
                return cf

            if nc > 1:
                expect_fail(["foreign", k], subst)
        # foreign container appended / full foreign chain mixed in
        expect_fail(["foreign-extra"], lambda cf: cf + [ofiles[-1]])
        # duplicated container under a second name
        for k in range(nc):

            def dup(cf, k=k):
                p = cf[k].parent / f"dup{k}.ih5"
                shutil.copy(cf[k], p)
                if side(cf[k]).exists():
                    shutil.copy(side(cf[k]), side(p))
                return cf + [p]

            expect_fail(["duplicate", k], dup)
        # forks: share containers 0..k, diverging patch k+1
        for k in range(nc):

            def fork(cf, k=k, mode="mixed"):
                fd = cf[0].parent / f"fork{k}"
                os.makedirs(fd)
                for f in cf[: k + 1]:
                    shutil.copy(f, fd)
                    if side(f).exists():
                        shutil.copy(side(f), fd)
                fr = cls(fd / "rec", "r+")
                fr["/forked"] = 7
                fr.close()
                fp = sorted(fd.glob("*.ih5"), key=lambda p: (p.name != "rec.ih5", p.name))[-1]
                return fd, fp

            if k + 1 < nc:
                # original chain with patch k+1 replaced by the fork's patch (later patches link to the original one)
                def repl(cf, k=k):
                    fd, fp = fork(cf, k)
                    out = list(cf)
                    out[k + 1] = fp
                    return out

                if k + 2 < nc:
                    expect_fail(["fork-replace", k + 1], repl)
                # both patches k+1 present
                def both(cf, k=k):
                    fd, fp = fork(cf, k)
                    return list(cf) + [fp]

                expect_fail(["fork-both", k + 1], both)
            else:
                # fork on top of the full chain is a coherent longer record (positive control)
                def longer(cf, k=k):
                    fd, fp = fork(cf, k)
                    return list(cf) + [fp]

                faults.append((["fork-continue", k + 1], longer, True, "any"))
        # duplicated patch_uuid (user block of container k re-labelled with the uuid of an older container j;
        # the successor's prev_patch is adjusted so that the chain links stay consistent)
        for j in range(nc):
            for k in range(j + 1, nc):

                def dupuuid(cf, j=j, k=k):
                    uj = _ub_read(cf[j])
                    uk = _ub_read(cf[k])
                    uk["patch_uuid"] = uj["patch_uuid"]
                    _ub_write(cf[k], uk)
                    if k + 1 < len(cf):
                        un = _ub_read(cf[k + 1])
                        un["prev_patch"] = uj["patch_uuid"]
                        _ub_write(cf[k + 1], un)
                    return cf

                expect_fail(["dup-uuid", j, k], dupuuid)
        if kind == "mf":
            # manifest of the newest container: removed / swapped with another record's / older one's
            def mrem(cf):
                side(cf[-1]).unlink()
                return cf

            expect_fail(["manifest-removed"], mrem)

            def mswap(cf):
                shutil.copy(side(ofiles[-1]), side(cf[-1]))
                return cf

            expect_fail(["manifest-foreign"], mswap)
            if nc > 1:

                def mold(cf):
                    shutil.copy(side(cf[0]), side(cf[-1]))
                    return cf

                expect_fail(["manifest-older"], mold)

            def mext(cf):
                with open(side(cf[-1]), "ab") as f:
                    f.write(b"\n")
                return cf

            expect_fail(["manifest-extended"], mext)

            def mtr(cf):
                with open(side(cf[-1]), "r+b") as f:
                    f.truncate(os.path.getsize(side(cf[-1])) - 1)
                return cf

            expect_fail(["manifest-truncated"], mtr)

        for descr, fn, exp_open, exp_view in faults:
            if only is not None and descr != only:
                continue
            cd, cf = fresh_copy()
            try:
                try:
                    fs = fn(cf)
                except Exception as e:
                    return _viol("harness-fault-setup", f"could not apply fault {descr}: {type(e).__name__}: {e}", cfg_name, hist, descr), n, pos
                # every order of presentation is not the point here (C03); use given + reversed
                for order in (list(fs), list(reversed(fs))):
                    ok, v = _opens(cls, order)
                    if exp_open:
                        pos += 1
                        if ok is not True:
                            return _viol("coherent-set-refused", f"coherent set {descr} refused: {v}", cfg_name, hist, descr), n, pos
                        if exp_view != "any" and v != exp_view:
                            return _viol("coherent-set-wrong-view", f"coherent set {descr} shows a wrong state", cfg_name, hist, descr), n, pos
                    else:
                        n += 1
                        if ok is not False:
                            return _viol("incoherent-set-accepted", f"corrupted set {descr} opens as a record" + ("" if ok else f" ({v})"), cfg_name, hist, descr), n, pos
                if descr[0] == "remove":
                    # the same incoherent directory addressed by record name, in every non-creating mode
                    gone = cf[descr[1]]
                    os.unlink(gone)
                    if side(gone).exists():
                        os.unlink(side(gone))
                    for mode in ("r", "r+", "a"):
                        n += 1
                        r = None
                        try:
                            with env.watchdog(20):
                                r = cls(Path(cd) / "rec", mode)
                        except env.StepTimeout:
                            return _viol("open-nonterm", f"open by name ({mode}) did not terminate", cfg_name, hist, descr), n, pos
                        except BaseException as e:
                            if isinstance(e, (KeyboardInterrupt, SystemExit)):
                                raise
                            continue
                        finally:
                            if r is not None:
                                ih5.discard(r)
                        return _viol("incoherent-set-accepted", f"directory with container #{descr[1]} removed opens by name with mode {mode}", cfg_name, hist, descr), n, pos
            finally:
                env.rmtree(cd)
        return None, n, pos
    finally:
        env.rmtree(d)
        env.rmtree(od)


def _cfgs(seed):
    return {
        "S": treeexp.make_cfg("S", seed, "narrow", copies=False, moves=False, max_containers=3),
        "M": treeexp.make_cfg("M", seed, "narrow", copies=False, moves=False, max_containers=3, kind="mf"),
    }


def run(tier, seed):
    q = tier == "quick"
    cfgs = _cfgs(seed)
    violations = []
    with parallel.make_pool("mc.props.c04", {"cfgs": cfgs}) as pool:
        fam = {}
        recs = []
        for name in ("S", "M"):
            hs, tr = ih5lib.gen_states(pool, name, 3)
            fam[name] = {"records": len(hs), "depth": 3}
            recs += [(name, h) for h in hs]
        # structural faults: all records
        res = pool.map("check_struct", recs, chunk=2, item_deadline=300)
        nstruct = npos = 0
        for t, r in zip(recs, res):
            if r == parallel.HANG:
                violations.append({"sig": {"kind": "hang"}, "what": "hung", "input": {"cfg": t[0], "history": t[1], "fault": None, "seed": seed}})
                continue
            v, a, b = r
            nstruct += a
            npos += b
            if v:
                violations.append(v)
        # byte faults: quick - per class one 2-container and one 3-container record with the most content; thorough - all
        def pick(name, nb):
            c = [h for (n2, h) in recs if n2 == name and sum(1 for o in h if o[0] == "B") == nb]
            return c[-1] if c else None

        if q:
            chosen = [(n, pick(n, nb)) for n in ("S", "M") for nb in (1, 2)]
            chosen = [c for c in chosen if c[1] is not None]
        else:
            chosen = recs
        # one record per class whose newest-but-one container is larger than common I/O chunk sizes
        bigrecs = [(n, [["set", "/q", "abs"], ["B"], ["setbig", "/big", "abs", 150001], ["B"], ["set", "/r", "abs"]]) for n in ("S", "M")]
        resb0 = pool.map("check_struct", bigrecs, chunk=1, item_deadline=900)
        for t, r in zip(bigrecs, resb0):
            if r == parallel.HANG:
                continue
            v, a, b = r
            nstruct += a
            npos += b
            if v:
                violations.append(v)
        sizes = pool.map("file_sizes", chosen + bigrecs, chunk=1)
        btasks = []
        CH = 256
        for (name, h), (fs, ms) in zip(chosen + bigrecs, sizes):
            for fi, sz in enumerate(fs):
                if sz > 20000:
                    # large container: every byte of the first and last 2 KiB, a fixed stride in between
                    for lo in list(range(UB, UB + 2048, CH)) + list(range(sz - 2048, sz, CH)):
                        btasks.append((name, h, fi, lo, lo + CH, False))
                    for lo in range(UB + 2048, sz - 2048, 4099):
                        btasks.append((name, h, fi, lo, lo + 1, False))
                    continue
                for lo in range(UB, sz, CH):
                    btasks.append((name, h, fi, lo, lo + CH, False))
            if name == "M" and ms[-1]:
                for lo in range(0, ms[-1], CH):
                    btasks.append((name, h, len(fs) - 1, lo, lo + CH, True))
            # the same set without its base, opened with allow_baseless=True: every remaining element is still protected
            if len(fs) >= 2 and max(fs) <= 20000:
                for fi, sz in enumerate(fs):
                    if fi >= 1:
                        for lo in range(UB, sz, CH):
                            btasks.append((name, h, fi, lo, lo + CH, False, True))
        resb = pool.map("check_bytes", btasks, chunk=1, item_deadline=600)
        nbytes = 0
        for t, r in zip(btasks, resb):
            if r == parallel.HANG:
                violations.append({"sig": {"kind": "hang"}, "what": "hung", "input": {"cfg": t[0], "history": t[1], "fault": ["byte-range", t[2], t[3]], "seed": seed}})
                continue
            v, a = r
            nbytes += a
            if v:
                violations.append(v)
    cov = {
        "evaluations": nstruct + npos + nbytes,
        "distinct_nontrivial": nstruct + nbytes,
        "structural_faults": nstruct,
        "positive_controls": npos,
        "byte_faults": nbytes,
        "records": fam,
        "byte_fault_records": len(chosen),
        "exhaustive": True,
        "rule": "records = every deduplicated narrow history of depth<=3 (1-3 containers), IH5Record and IH5MFRecord, all committed; "
        "structural faults per record: removal of each non-newest element, truncation to a window of lengths, extension by 1..8 bytes, "
        "same-index substitution by another record, foreign extra container, duplicate under a second name, fork replace / fork both, "
        "duplicated patch_uuid (every pair j<k, links kept consistent), manifest removed/foreign/older/extended/truncated; one additional record per class with a 150 kB dataset "
        "(structural faults; bytes: first and last 2 KiB of every large container completely, stride 4099 in between); byte faults: every payload byte (offset>=1024) of every container and every byte of "
        "the newest manifest, XOR 0xFF and +1 (manifest also XOR 0x20); the payload byte faults are repeated on the set without its base opened with allow_baseless=True" + (" for one 2- and one 3-container record per class" if q else " for all records")
        + "; non-trivial = a fault that makes the set incoherent (must be refused); positive controls = coherent sets that must open",
        "samples": [{"cfg": recs[len(recs) // 2][0], "history": recs[len(recs) // 2][1], "fault": ["remove", 0]}, {"cfg": btasks[0][0], "history": btasks[0][1], "fault": ["byte", btasks[0][2], btasks[0][3], "xor"]}],
    }
    return {
        "level": "fault_enumeration",
        "coverage": cov,
        "violations": violations,
        "assumptions": ["user-block bytes (offset<1024) are not hash protected by design and are not corrupted here", "only the manifest linked by the newest container is checked (class doc: older manifests are not required)"],
    }


def replay(data):
    inp = data["input"]
    treeexp.worker_init(_cfgs(inp.get("seed", 0)))
    hist = [list(o) for o in inp["history"]]
    f = inp.get("fault")
    if f and f[0] == "byte":
        v, _ = check_bytes((inp["cfg"], hist, f[1], f[2], f[2] + 1, f[4], len(f) > 5 and f[5]))
        return v
    v, _, _ = check_struct((inp["cfg"], hist, f))
    return v
