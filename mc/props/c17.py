"""C17 - embedded file bytes and their file metadata are exact.

Exhaustive over a payload corpus (all single bytes, 2-byte strings over boundary bytes, boundary
lengths in three fillings, NUL variants) x drivers {h5py, IH5, IH5MF} x every follow-up history
(<= 1/2/3 ops from boundary, copy, move, merge, reopen) that keeps the node.
"""
from __future__ import annotations

import mc.env as env  # noqa: F401

import hashlib
import itertools
import os
import time
from pathlib import Path

from mc import contexp, parallel
from mc.impl import ih5

MARKER = b"\x7f"
FOLLOW = ["B", "copy", "move", "merge", "R", "B2"]
LENGTHS = [0, 1, 2, 63, 64, 65, 127, 128, 129, 1023, 1024, 1025, 4095, 4096, 4097, 65535, 65536, 65537]


def worker_init(**kw):
    contexp.worker_init(cfgs={}, envs=["old"])
    import metador_core.packer.utils  # noqa: F401


def payloads():
    out = [bytes([i]) for i in range(256)]
    B = [0x00, 0x7F, 0x80, 0xFF, 0x61]
    out += [bytes([a, b]) for a in B for b in B]
    for n in LENGTHS:
        if n >= 3 or n == 0:
            out.append(b"\x00" * n)
            if n:
                out.append(b"\xff" * n)
                out.append(bytes((i * 7 + 3) & 0xFF for i in range(n)))
    out += [b"\x00a", b"a\x00", b"a\x00\x00", b"\x00\x00a\x00\x00", b"\x7f\x00", b"\x00\x7f", b"\x7f\x7f", b"a" + b"\x00" * 64, b"\x7f" * 64, b"\x7fabc", b"abc\x7f"]
    seen, res = set(), []
    for p in out:
        if p not in seen:
            seen.add(p)
            res.append(p)
    return res


def _bytes_of(v):
    import h5py
    import numpy as np

    if isinstance(v, h5py.Empty):
        return b""
    if isinstance(v, np.void):
        return v.tobytes()
    if isinstance(v, bytes):
        return v
    if isinstance(v, np.ndarray):
        return v.tobytes()
    raise TypeError(f"unexpected stored value type {type(v).__name__}")


def _viol(kind, detail, task, extra=None):
    sig = {"kind": kind, "driver": task["driver"], "follow": list(task["follow"]), "len_class": _lenclass(task["payload"]) if not task.get("biglen") else f"{task['biglen']} bytes"}
    if task.get("nested"):
        sig["target"] = "below a group whose name re-appears in the path"
    if extra:
        sig.update(extra)
    return {"sig": sig, "what": detail, "input": {"driver": task["driver"], "follow": list(task["follow"]), "payload": task["payload"].hex(), "seed": task.get("seed", 0), "second": task["second"].hex() if task.get("second") is not None else None, "biglen": task.get("biglen"), "nested": bool(task.get("nested"))}}


def _lenclass(p):
    if p == MARKER:
        return "marker"
    n = len(p)
    return "0" if n == 0 else ("1" if n == 1 else ("2" if n == 2 else ("small" if n < 1024 else "large")))


def check_node(mc, path, payload, task, where):
    if path not in mc:
        return _viol("node-missing", f"{path} missing {where}", task)
    node = mc[path]
    try:
        got = _bytes_of(node[()])
    except Exception as e:
        return _viol("read-failed", f"reading {path} {where} raised {type(e).__name__}: {e}", task)
    if got != payload:
        return _viol("bytes-differ", f"{path} {where}: stored {len(got)} bytes {got[:16].hex()}.., source {len(payload)} bytes {payload[:16].hex()}..", task)
    m = node.meta.get("core.file")
    if m is None:
        return _viol("meta-missing", f"core.file metadata missing at {path} {where}", task)
    if m.contentSize != len(payload):
        return _viol("size-wrong", f"contentSize {m.contentSize} != {len(payload)} {where}", task)
    hx = hashlib.sha256(payload).hexdigest()
    if str(m.sha256) not in (hx, "sha256:" + hx):
        return _viol("sha256-wrong", f"sha256 {m.sha256} != {hx} {where}", task)
    return None


def run_case(task):
    """Returns (violation | None, checks)."""
    from metador_core.container import MetadorContainer
    from metador_core.packer.utils import pack_file

    drv, payload, follow = task["driver"], task["payload"], task["follow"]
    names = [("f.bin", "emb"), ("data.dat", "blob"), ("x", "y")][task.get("seed", 0) % 3]
    if task.get("biglen"):
        # larger than common I/O chunk sizes; the last byte breaks the pattern so that a hash of a prefix differs
        n = task["biglen"]
        payload = (bytes(range(256)) * (n // 256 + 1))[: n - 1] + b"\x5a"
    target = f"/{names[1]}"
    if task.get("nested"):
        # a group name re-appearing deeper in the path
        target = f"/{names[1]}/proc/{names[1]}/{names[0].split('.')[0]}"
    d = env.fresh_dir("p")
    src = Path(d) / names[0]
    src.write_bytes(payload)
    c = contexp.Cont(drv)
    nck = 0
    try:
        mc = c.mc
        before = contexp.user_view(mc)
        try:
            if task.get("nested"):
                mc.require_group(target.rsplit("/", 1)[0])
            pack_file(mc, src, target=target)
            stored = True
        except Exception as e:
            stored = False
            err = f"{type(e).__name__}: {e}"
        nck += 1
        if payload == MARKER and drv != "h5":
            # reserved deletion marker: must be rejected loudly, nothing stored
            if stored:
                return _viol("marker-stored", "the IH5 deletion marker value was embedded without an error", task), nck
            if contexp.user_view(mc) != before:
                return _viol("marker-partial", f"refused marker left something behind: {contexp.user_view(mc)['names']}", task), nck
            sc = contexp.scan_raw(c.raw)
            if sc["objects"] or sc["links"]:
                return _viol("marker-partial", "refused marker left metadata behind", task), nck
            return None, nck
        if not stored:
            if payload == MARKER and drv == "h5":
                if contexp.user_view(mc) != before:
                    return _viol("marker-partial", "loud error but something was stored", task), nck
                return None, nck
            return _viol("embed-failed", f"pack_file raised {err}", task), nck
        tracked = [target]
        expect = {tracked[0]: payload}
        v = check_node(mc, tracked[0], payload, task, "right after embedding")
        if v:
            return v, nck
        if task.get("second") is not None:
            # same source path, new content of the same length, modification time preserved: embed again
            st = os.stat(src)
            src.write_bytes(task["second"])
            os.utime(src, ns=(st.st_atime_ns, st.st_mtime_ns))
            p2 = f"/{names[1]}2"
            try:
                pack_file(c.mc, src, target=p2)
            except Exception as e:
                return _viol("embed-failed", f"second pack_file raised {type(e).__name__}: {e}", task), nck
            tracked.append(p2)
            expect[p2] = task["second"]
            for t in tracked:
                nck += 1
                v = check_node(c.mc, t, expect[t], task, "after embedding new content from the same path")
                if v:
                    v["sig"]["kind"] = "reembed-" + v["sig"]["kind"]
                    return v, nck
        for i, op in enumerate(follow):
            if op in ("B", "B2"):
                if drv == "h5":
                    continue
                c.raw.commit_patch()
                c.raw.create_patch()
            elif op == "copy":
                dst = f"/copy{i}"
                c.mc.copy(tracked[0], dst)
                tracked.append(dst)
                expect[dst] = expect[tracked[0]]
            elif op == "move":
                dst = f"/moved{i}"
                c.mc.move(tracked[0], dst)
                expect[dst] = expect.pop(tracked[0])
                tracked[0] = dst
            elif op in ("gcopy", "gmove"):
                # the whole top-level group that contains the embedded file
                top = "/" + tracked[0].strip("/").split("/")[0]
                dst = f"/g{op}{i}"
                (c.mc.copy if op == "gcopy" else c.mc.move)(top, dst)
                for t in list(tracked):
                    if t.startswith(top + "/"):
                        nt = dst + t[len(top) :]
                        if op == "gcopy":
                            tracked.append(nt)
                            expect[nt] = expect[t]
                        else:
                            tracked[tracked.index(t)] = nt
                            expect[nt] = expect.pop(t)
            elif op == "replace":
                # delete the node and embed different bytes at the same path
                newp = bytes((b + 1) & 0xFF for b in expect[tracked[0]]) or b"\x01"
                if newp == MARKER:
                    newp = b"\x7e"
                del c.mc[tracked[0]]
                src.write_bytes(newp)
                pack_file(c.mc, src, target=tracked[0])
                expect[tracked[0]] = newp
            elif op == "attr":
                c.mc[tracked[0]].attrs["note"] = i
            elif op == "R":
                c.reopen()
            elif op == "merge":
                if drv == "h5":
                    continue
                c.raw.commit_patch()
                md = env.fresh_dir("mg")
                try:
                    mfile = c.raw.merge_files(Path(md) / "merged")
                    c.raw.create_patch()
                    mr = ih5.record_class("mf" if drv == "mf" else "ih5")(Path(md) / "merged", "r")
                    try:
                        mm = MetadorContainer(mr)
                        for t in tracked:
                            nck += 1
                            v = check_node(mm, t, expect[t], task, "in the merged container")
                            if v:
                                return v, nck
                    finally:
                        mr.close()
                finally:
                    env.rmtree(md)
            for t in tracked:
                nck += 1
                v = check_node(c.mc, t, expect[t], task, f"after {follow[: i + 1]}")
                if v:
                    return v, nck
        return None, nck
    finally:
        c.close()
        env.rmtree(d)


def tasks_for(tier, seed):
    P = payloads()
    rep = [b"", b"\x00", b"a\x00", b"\x00a", b"\xff\xff", b"\x00" * 64, b"\x00" * 65, bytes(range(256)), b"\x7f\x00", b"a" + b"\x00" * 64, b"\xff" * 4097, b"\x00" * 65537]
    out = []
    maxlen_all = 1 if tier == "quick" else 2
    maxlen_rep = 2 if tier == "quick" else 3
    for drv in ("h5", "ih5", "mf"):
        fol = [()]
        for n in range(1, maxlen_all + 1):
            fol += list(itertools.product(FOLLOW, repeat=n))
        for p in P:
            for f in fol:
                out.append({"driver": drv, "payload": p, "follow": list(f), "seed": seed})
        folr = list(itertools.product(FOLLOW, repeat=maxlen_rep))
        for p in rep:
            for f in folr:
                out.append({"driver": drv, "payload": p, "follow": list(f), "seed": seed})
        # directed: replace-then-touch chains (new bytes at the same path in a later patch, then attribute-only patches)
        chains = [["B", "replace", "B", "attr"], ["B", "replace", "B", "attr", "B", "attr", "R"], ["replace", "B", "attr", "merge"], ["B", "replace", "copy", "B", "attr"], ["B", "attr", "B", "replace", "R"]]
        if tier != "quick":
            chains += [list(f) for f in itertools.product(["B", "replace", "attr", "R"], repeat=4)]
        for p in rep:
            for f in chains:
                out.append({"driver": drv, "payload": p, "follow": list(f), "seed": seed})
        # files larger than common I/O chunk sizes
        for n in (1048576, 1048577, 3145733) if tier == "quick" else (65536, 65537, 1048575, 1048576, 1048577, 2097153, 3145733, 8388609):
            for f in ([], ["copy"]) if drv == "h5" or tier != "quick" else ([],):
                out.append({"driver": drv, "payload": b"big", "biglen": n, "follow": list(f), "seed": seed})
        # embedded below a group whose name re-appears deeper in the path; the whole group is copied / moved / merged
        for p in rep[:7]:
            for f in (["gcopy"], ["gmove"], ["B", "gcopy"], ["B", "gmove", "R"], ["gcopy", "merge"], ["merge"], ["B", "attr", "merge"]):
                out.append({"driver": drv, "payload": p, "follow": list(f), "seed": seed, "nested": True})
        # the same source path embedded twice with different content of equal length and unchanged mtime
        pairs = [(bytes([i]), bytes([i ^ 0xFF])) for i in range(256) if bytes([i]) != MARKER and bytes([i ^ 0xFF]) != MARKER]
        pairs += [(b"\x00" * n, b"\xff" * n) for n in LENGTHS if n >= 2]
        if drv != "h5" and tier == "quick":
            pairs = pairs[::16]
        for p1, p2 in pairs:
            out.append({"driver": drv, "payload": p1, "follow": [], "seed": seed, "second": p2})
    return out


def run(tier, seed):
    tasks = tasks_for(tier, seed)
    violations = []
    nck = 0
    with parallel.make_pool("mc.props.c17") as pool:
        res = pool.map("run_case", tasks, chunk=16, item_deadline=120)
    for t, r in zip(tasks, res):
        if r == parallel.HANG:
            violations.append(_viol("hang", "case hung", t))
            continue
        v, n = r
        nck += n
        if v:
            violations.append(v)
    P = payloads()
    cov = {
        "evaluations": len(tasks),
        "distinct_nontrivial": len({(t["driver"], t["payload"], tuple(t["follow"]), t.get("second")) for t in tasks if t["payload"]}),
        "payloads": len(P),
        "node_checks": nck,
        "exhaustive": True,
        "rule": "payloads = all 256 single bytes (incl. the IH5 deletion marker 0x7f), all 2-byte strings over {00,7f,80,ff,61}, lengths "
        f"{LENGTHS} filled with 00 / ff / a counter, NUL- and marker-variants; x drivers h5py/IH5/IH5MF x every follow-up sequence of length <= "
        + ("1 (<=2 for 12 representative payloads)" if tier == "quick" else "2 (<=3 for 12 representative payloads)")
        + " over {boundary, copy, move, merge, reopen, second boundary}; directed replace-then-touch chains (delete + embed other bytes at the same path, attribute-only patches); "
        "re-embedding from the SAME source path with different content of equal length and preserved mtime (all single bytes, boundary lengths); after every step every embedded node: bytes == source, contentSize, sha256; marker on IH5 refused without effect; non-trivial = non-empty payload",
        "samples": [{"driver": t["driver"], "payload": t["payload"].hex()[:40], "follow": t["follow"]} for t in (tasks[3], tasks[len(tasks) // 2], tasks[-1])],
    }
    return {"level": "exploration", "coverage": cov, "violations": violations, "assumptions": ["finite payload corpus (boundary lengths, NUL-rich, high bytes, marker-like)", "libmagic MIME detection is not judged"]}


def replay(data):
    worker_init()
    inp = data["input"]
    v, _ = run_case({"driver": inp["driver"], "payload": bytes.fromhex(inp["payload"]), "follow": inp["follow"], "seed": inp.get("seed", 0), "second": bytes.fromhex(inp["second"]) if inp.get("second") is not None else None, "biglen": inp.get("biglen"), "nested": inp.get("nested")})
    return v
