"""C16 - plugin references order, match and resolve by semantic version.

All parts are exhaustive enumerations of finite spaces (DESIGN.md section 3, C16):

(a) order laws on every pair and triple of a finite reference universe
    ({g,h} x {aa,ab} x {n0,n1,n2}^2 x {n0,n1}, each as base `PluginRef` and as the per-group subclass),
(b) `supports` against its definition on every ordered pair,
(c) the registry as a state machine: every order of every subset (size <= bound) of
    V = {0.1.0, 0.1.1, 0.2.0, 1.0.0, 1.1.0, 2.0.0} registered through `PluginGroup(entrypoints)`,
    incremental `_add_ep`, `register_in_group` and every "constructor prefix + incremental rest" split,
    on a fresh group object (harness-owned group and a fresh instance of the real schema group class);
    in every reached state all queries of a 3x3x2 version grid are compared with the model,
(d) the entry point name codec on a bounded name grammar x version grid, both directions, plus
    consistent rejection of malformed names,
(e) every installed plugin / nested schema: handle obtained without version refuses `class X(it)`,
    handle obtained with version allows it.

VERIF_SEED only chooses the spelling (group names, plugin names, numerals).
"""
from __future__ import annotations

import mc.env as env  # noqa: F401  (must be first: numpy shim)

import itertools
import operator
import re
import time

import numpy as np

from mc import parallel

# --------------------------------------------------------------------------- spelling

NAME_PAIRS = [("vt.aa", "vt.ab"), ("vt.aa", "vt.aa.bb"), ("xx.aa-b", "xx.aa_b"), ("vt.a1", "vt.a1.a1")]
NUMERALS = [(0, 1, 2), (0, 2, 10), (1, 9, 10), (0, 3, 12)]
REG_NAMES = [
    ("vt.aa", "vt.ab", "vt.ac"),
    ("vt.aa.bb", "vt.aa", "vt.aa.b1"),
    ("xx.aa-b", "xx.aa_b", "xx.aab"),
    ("vt.a1", "vt.a1.a1", "vt.a2"),
]
OWN_GROUPS = ["vtgroup", "c16grp", "zzgroup", "aagroup"]


def _installed_groups():
    from metador_core.plugins import plugingroups

    own = plugingroups.name
    return sorted(r.name for r in plugingroups.keys() if r.name != own)


def spell(seed: int) -> dict:
    seed = abs(int(seed))
    groups = _installed_groups()
    pairs = list(itertools.combinations(groups, 2)) or [("schema", "schema")]
    return {
        "seed": seed,
        "groups": list(pairs[seed % len(pairs)]),
        "names": list(NAME_PAIRS[(seed + seed // 4) % 4]),
        "numerals": list(NUMERALS[(seed + seed // 16) % 4]),
        "reg_names": list(REG_NAMES[(seed + seed // 4) % 4]),
        "own_group": OWN_GROUPS[seed % 4],
    }


def vstr(v) -> str:
    return ".".join(str(int(x)) for x in v)


def epname(name: str, v) -> str:
    # documented canonical form PLUGIN_NAME__MAJ.MIN.FIX (built here independently of the code under test)
    return f"{name}__{vstr(v)}"


# =========================================================================== (a) + (b)

OPS = {
    "<": operator.lt,
    "<=": operator.le,
    ">": operator.gt,
    ">=": operator.ge,
    "==": operator.eq,
    "!=": operator.ne,
}


def ref_universe(sp: dict) -> list:
    g, h = sp["groups"]
    aa, ab = sp["names"]
    nums = sp["numerals"]
    out = []
    for cls in ("base", "sub"):
        for grp in (g, h):
            for n in (aa, ab):
                for M in nums:
                    for m in nums:
                        for p in nums[:2]:
                            out.append({"cls": cls, "group": grp, "name": n, "version": [M, m, p]})
    return out


def build_ref(spec: dict):
    """A fresh reference object: base class `PluginRef(group=...)` or `plugingroups[group].PluginRef(...)`."""
    ver = tuple(spec["version"])
    if spec["cls"] == "base":
        from metador_core.schema.plugins import PluginRef

        return PluginRef(group=spec["group"], name=spec["name"], version=ver)
    from metador_core.plugins import plugingroups

    return plugingroups[spec["group"]].PluginRef(name=spec["name"], version=ver)


def key(spec: dict):
    return (spec["group"], spec["name"], tuple(spec["version"]))


def supports_def(a: dict, b: dict) -> bool:
    """The property's definition: group, name and major agree and own minor is not smaller."""
    return (
        a["group"] == b["group"]
        and a["name"] == b["name"]
        and a["version"][0] == b["version"][0]
        and a["version"][1] >= b["version"][1]
    )


def _ov(law, specs, what, expected=None, observed=None, **sig_extra):
    sig = {"part": "order", "law": law}
    sig.update(sig_extra)
    return {
        "sig": sig,
        "input": {"refs": [dict(s) for s in specs]},
        "what": what,
        "expected": expected,
        "observed": observed,
    }


def order_case(sig: dict, specs: list, inp_extra: dict | None = None):
    """Evaluate ONE law instance on freshly built reference objects; violation dict or None."""
    law = sig["law"]
    objs = [build_ref(s) for s in specs]
    B = lambda op, x, y: bool(OPS[op](x, y))  # noqa: E731
    if law == "reflexive":
        op = sig["op"]
        a = objs[0]
        for x, y, how in ((a, a, "the same object"), (a, build_ref(specs[0]), "an equal copy")):
            r = OPS[op](x, y)
            if not bool(r):
                return _ov(law, specs, f"a {op} a on {how} returned {r!r}", True, repr(r), op=op)
        return None
    if law == "irreflexive":
        op = sig["op"]
        a = objs[0]
        for x, y, how in ((a, a, "the same object"), (a, build_ref(specs[0]), "an equal copy")):
            r = OPS[op](x, y)
            if bool(r):
                return _ov(law, specs, f"a {op} a on {how} returned {r!r}", False, repr(r), op=op)
        return None
    if law == "tuple_order":
        op = sig.get("op") or (inp_extra or {}).get("op")
        a, b = objs
        exp = OPS[op](key(specs[0]), key(specs[1]))
        r = OPS[op](a, b)
        if bool(r) != exp:
            v = _ov(law, specs, f"a {op} b is {r!r}, tuple order (group,name,version) says {exp}", exp, repr(r))
            v["input"]["op"] = op
            return v
        return None
    if law == "antisymmetric":
        a, b = objs
        if B("<=", a, b) and B("<=", b, a) and not B("==", a, b):
            return _ov(law, specs, "a<=b and b<=a but not a==b")
        return None
    if law == "trichotomy":
        a, b = objs
        t = (B("<", a, b), B("==", a, b), B(">", a, b))
        if sum(t) != 1:
            return _ov(law, specs, f"(a<b, a==b, a>b) = {t}: not exactly one holds", 1, list(t))
        return None
    if law == "eq_iff_neither":
        a, b = objs
        e, l, g = B("==", a, b), B("<", a, b), B(">", a, b)
        if e != (not l and not g):
            return _ov(law, specs, f"a==b is {e} but a<b is {l} and a>b is {g}")
        return None
    if law == "eq_hash":
        a, b = objs
        if B("==", a, b) and hash(a) != hash(b):
            return _ov(law, specs, "a==b but hash(a)!=hash(b)")
        if B("==", a, b) != (not B("!=", a, b)):
            return _ov(law, specs, "a==b and a!=b are not complementary")
        return None
    if law == "transitive":
        a, b, c = objs
        r1, r2 = sig["rel"]
        r3 = "<" if "<" in (r1, r2) else r1
        if B(r1, a, b) and B(r2, b, c) and not B(r3, a, c):
            return _ov(law, specs, f"a{r1}b and b{r2}c but not a{r3}c", rel=[r1, r2])
        return None
    if law == "sorted":
        ks = [key(s) for s in specs]
        got = [(o.group, o.name, tuple(o.version)) for o in sorted(objs)]
        if got != sorted(ks):
            return _ov(law, specs, "sorted() is not ascending in (group,name,version)", sorted(ks), got)
        mn, mx = min(objs), max(objs)
        if (mn.group, mn.name, tuple(mn.version)) != min(ks) or (mx.group, mx.name, tuple(mx.version)) != max(ks):
            return _ov(law, specs, "min()/max() disagree with (group,name,version)")
        return None
    if law == "set":
        ks = [key(s) for s in specs]
        s = set(objs)
        if len(s) != len(set(ks)):
            return _ov(law, specs, f"set() of these references has {len(s)} elements, {len(set(ks))} distinct references", len(set(ks)), len(s))
        d = {}
        for o, k in zip(objs, ks):
            d.setdefault(o, k)
        fresh = [build_ref(sp_) for sp_ in specs]
        for o, k in zip(fresh, ks):
            if o not in s or d.get(o) != k:
                return _ov(law, specs, "set membership / dict lookup by an equal reference fails")
        return None
    raise ValueError(f"unknown law {law}")


def supports_case(specs: list):
    a, b = (build_ref(s) for s in specs)
    r = a.supports(b)
    exp = supports_def(*specs)
    if bool(r) != exp:
        return {
            "sig": {"part": "supports", "expected": exp},
            "input": {"refs": [dict(s) for s in specs]},
            "what": f"a.supports(b) returned {r!r}; definition (same group, name, major; minor not smaller) says {exp}",
            "expected": exp,
            "observed": repr(r),
        }
    return None


def _first(mask):
    idx = np.argwhere(mask)
    return None if len(idx) == 0 else tuple(int(x) for x in idx[0])


def part_order_supports(sp: dict, tier: str) -> dict:
    U = ref_universe(sp)
    n = len(U)
    left = [build_ref(s) for s in U]
    right = [build_ref(s) for s in U]  # separately built: equal pairs are distinct objects
    keys = [key(s) for s in U]
    viols = []
    evals = 0

    def confirm(v):
        if v is None:
            raise RuntimeError("C16(a): matrix result did not reproduce on fresh objects (nondeterministic comparison?)")
        k = repr(sorted((a_, repr(b_)) for a_, b_ in v["sig"].items()))
        if k not in found:
            found.add(k)
            viols.append(v)

    found = set()

    M = {op: np.zeros((n, n), dtype=bool) for op in OPS}
    K = {op: np.zeros((n, n), dtype=bool) for op in OPS}
    H = np.zeros((n, n), dtype=bool)
    S = np.zeros((n, n), dtype=bool)
    SD = np.zeros((n, n), dtype=bool)
    hl = [hash(x) for x in left]
    hr = [hash(x) for x in right]
    for i in range(n):
        a = left[i]
        for j in range(n):
            b = right[j]
            for op, f in OPS.items():
                M[op][i, j] = bool(f(a, b))
                K[op][i, j] = f(keys[i], keys[j])
            H[i, j] = hl[i] == hr[j]
            S[i, j] = bool(a.supports(b))
            SD[i, j] = supports_def(U[i], U[j])
    evals += n * n * (len(OPS) + 2)

    # identity: the very same object on both sides
    for i in range(n):
        a = left[i]
        for op in (">=", "<=", "=="):
            evals += 1
            if not bool(OPS[op](a, a)):
                confirm(order_case({"law": "reflexive", "op": op}, [U[i]]))
                break
        for op in ("<", ">", "!="):
            evals += 1
            if bool(OPS[op](a, a)):
                confirm(order_case({"law": "irreflexive", "op": op}, [U[i]]))
                break
    EQK = K["=="]
    # equal copies of the same class (equal references of different classes: tuple_order below)
    for op in (">=", "<=", "=="):
        d = np.flatnonzero(~np.diag(M[op]))
        if len(d):
            confirm(order_case({"law": "reflexive", "op": op}, [U[int(d[0])]]))
    for op in ("<", ">", "!="):
        d = np.flatnonzero(np.diag(M[op]))
        if len(d):
            confirm(order_case({"law": "irreflexive", "op": op}, [U[int(d[0])]]))
    for op in OPS:
        w = _first(M[op] != K[op])
        if w:
            confirm(order_case({"law": "tuple_order", "op": op}, [U[w[0]], U[w[1]]]))
            break  # one class: disagreement with the tuple order (the operator is part of the input)
    w = _first(M["<="] & M["<="].T & ~M["=="])
    if w:
        confirm(order_case({"law": "antisymmetric"}, [U[w[0]], U[w[1]]]))
    tri = M["<"].astype(int) + M["=="].astype(int) + M[">"].astype(int)
    w = _first(tri != 1)
    if w:
        confirm(order_case({"law": "trichotomy"}, [U[w[0]], U[w[1]]]))
    w = _first(M["=="] != (~M["<"] & ~M[">"]))
    if w:
        confirm(order_case({"law": "eq_iff_neither"}, [U[w[0]], U[w[1]]]))
    w = _first((M["=="] & ~H) | (M["=="] == M["!="]))
    if w:
        confirm(order_case({"law": "eq_hash"}, [U[w[0]], U[w[1]]]))
    hash_collisions = int((H & ~EQK).sum())
    evals += 6 * n * n

    # triples: a R1 b and b R2 c  =>  a R3 c, decided on the measured relation matrices for ALL n^3 triples
    triples = 0
    for r1, r2 in (("<=", "<="), ("<", "<"), ("==", "=="), ("<", "<="), ("<=", "<"), (">=", ">="), (">", ">")):
        r3 = "<" if "<" in (r1, r2) else r1
        comp = (M[r1].astype(np.int32) @ M[r2].astype(np.int32)) > 0
        triples += n * n * n
        w = _first(comp & ~M[r3])
        if w:
            a, c = w
            b = int(np.argwhere(M[r1][a, :] & M[r2][:, c])[0][0])
            confirm(order_case({"law": "transitive", "rel": [r1, r2]}, [U[a], U[b], U[c]]))
    evals += triples

    # supports on all ordered pairs
    w = _first(S != SD)
    if w:
        bad = np.argwhere(S != SD)
        seen = set()
        for i, j in bad:
            e = bool(SD[i, j])
            if e in seen:
                continue
            seen.add(e)
            v = supports_case([U[int(i)], U[int(j)]])
            if v is None:
                raise RuntimeError("C16(b): supports() result did not reproduce")
            viols.append(v)

    # sorted / set: every ordered pair (and in thorough every ordered triple of the base half), then the
    # whole universe in four fixed arrangements
    sort_cases = 0
    half = [s for s in U if s["cls"] == "base"]
    got_sorted = got_set = False

    def run_list(specs):
        nonlocal got_sorted, got_set, sort_cases, evals
        sort_cases += 1
        evals += 2
        if not got_sorted:
            v = order_case({"law": "sorted"}, specs)
            if v:
                viols.append(v)
                got_sorted = True
        if not got_set:
            v = order_case({"law": "set"}, specs)
            if v:
                viols.append(v)
                got_set = True

    # pairs: use the matrices to find candidates cheaply, then confirm on fresh objects
    objs_all = left
    for i in range(n):
        for j in range(n):
            sort_cases += 1
            a, b = objs_all[i], right[j]
            srt = sorted([a, b])
            exp_first = min(keys[i], keys[j])
            k0 = (srt[0].group, srt[0].name, tuple(srt[0].version))
            same = keys[i] == keys[j]
            ok_sorted = k0 == exp_first
            ok_set = (len({a, b}) == 1) == same and ((a in {b}) == same)
            evals += 3
            if not (ok_sorted and ok_set):
                run_list([U[i], U[j]])
    if tier != "quick":
        hobjs = [build_ref(s) for s in half]
        hkeys = [key(s) for s in half]
        m = len(half)
        for i in range(m):
            for j in range(m):
                for k in range(m):
                    sort_cases += 1
                    evals += 1
                    srt = sorted([hobjs[i], hobjs[j], hobjs[k]])
                    if [(o.group, o.name, tuple(o.version)) for o in srt] != sorted([hkeys[i], hkeys[j], hkeys[k]]):
                        run_list([half[i], half[j], half[k]])
    for arr in (
        list(range(n)),
        list(reversed(range(n))),
        [(i * 7) % n for i in range(n)] if n % 7 else list(range(n)),
        [(i * 55 + 3) % n for i in range(n)] if np.gcd(55, n) == 1 else list(range(n)),
    ):
        run_list([U[i] for i in arr])

    nontrivial = int((~EQK).sum())  # ordered pairs of different references
    return {
        "violations": viols,
        "evaluations": evals,
        "nontrivial": nontrivial,
        "info": {
            "refs": n,
            "distinct_refs": len(set(keys)),
            "pairs": n * n,
            "triples": triples,
            "sort_set_cases": sort_cases,
            "hash_collisions_between_unequal_refs": hash_collisions,
        },
        "samples": [{"part": "order", "refs": [U[0], U[n // 2 + 1]]}, {"part": "supports", "refs": [U[3], U[1]]}],
    }


# =========================================================================== (c) registry state machine

V = [(0, 1, 0), (0, 1, 1), (0, 2, 0), (1, 0, 0), (1, 1, 0), (2, 0, 0)]
GRID = [(a, b, c) for a in (0, 1, 2) for b in (0, 1, 2) for c in (0, 1)]
VB = (1, 0, 0)  # the single version of the second plugin name registered alongside


def registry_items(sp: dict, max_k: int) -> list:
    """All executions: group kind x order of a subset x (constructor prefix length, mechanism of the rest)."""
    items = []
    for kind in ("own", "schema"):
        for k in range(0, max_k + 1):
            for order in itertools.permutations(V, k):
                splits = [(k, None)] + [(j, m) for j in range(0, max(k, 1)) for m in ("_add_ep", "register_in_group")]
                for j, mech in splits:
                    items.append(
                        {
                            "kind": kind,
                            "own_group": sp["own_group"],
                            "names": sp["reg_names"],
                            "order": [list(v) for v in order],
                            "ctor_prefix": j,
                            "mechanism": mech,
                        }
                    )
    return items


def _rt(r):
    if r is None:
        return None
    return [r.group, r.name, [int(x) for x in r.version]]


def _compat(regs, v):
    """Model: registered versions supporting a request for v (same major, minor not smaller), ascending."""
    return [list(r) for r in sorted(regs) if r[0] == v[0] and r[1] >= v[1]]


def _check_state(g, gname, names, model):
    """Compare every query of the grid with the model. Returns (failures, evaluations, impl snapshot)."""
    A, Bn, C = names
    regsA = sorted(model["A"])
    regsB = sorted(model["B"])
    fails = []
    n = 0

    def fail(check, query, exp, obs, what):
        if not any(f["check"] == check for f in fails):
            fails.append({"check": check, "query": query, "expected": exp, "observed": obs, "what": what})

    def refs(name, vs):
        return [[gname, name, list(v)] for v in vs]

    def guarded(check, query, fn):
        try:
            return True, fn()
        except env.StepTimeout:
            raise
        except Exception as e:  # a query on a registered/unregistered name must not fail
            fail(check, query, "an answer", f"raised {type(e).__name__}", f"{query} raised {type(e).__name__}: {str(e)[:200]}")
            return False, None

    # versions(name): every registered version, ascending
    ok, got = guarded("versions", f"versions({A!r})", lambda: [_rt(r) for r in g.versions(A)])
    n += 1
    snap_a = got
    if ok and got != refs(A, regsA):
        fail("versions", f"versions({A!r})", refs(A, regsA), got, "versions(name) is not the ascending list of all registered versions")
    # versions(name, v) / resolve(name, v) on the grid
    for v in GRID:
        exp = _compat(regsA, v)
        q = f"versions({A!r}, {tuple(v)})"
        ok, got = guarded("versions_compat", q, lambda: [_rt(r) for r in g.versions(A, tuple(v))])
        n += 1
        if ok and got != refs(A, exp):
            fail("versions_compat", q, refs(A, exp), got, "versions(name, v) is not the ascending list of registered versions supporting v")
        q = f"resolve({A!r}, {tuple(v)})"
        ok, got = guarded("resolve", q, lambda: _rt(g.resolve(A, tuple(v))))
        n += 1
        e1 = refs(A, exp)[-1] if exp else None
        if ok and got != e1:
            fail("resolve", q, e1, got, "resolve(name, v) is not the newest registered version supporting v (or None)")
    q = f"resolve({A!r})"
    ok, got = guarded("resolve", q, lambda: _rt(g.resolve(A)))
    n += 1
    e1 = refs(A, regsA)[-1] if regsA else None
    if ok and got != e1:
        fail("resolve", q, e1, got, "resolve(name) is not the newest registered version (or None)")
    # keys(): all registered references of all names (order across names is not promised)
    ok, got = guarded("keys", "keys()", lambda: sorted(_rt(r) for r in g.keys()))
    n += 1
    expk = sorted(refs(A, regsA) + refs(Bn, regsB))
    if ok and got != expk:
        fail("keys", "keys()", expk, got, "keys() is not exactly the set of registered references")
    # in
    ok, got = guarded("contains", f"{A!r} in group", lambda: A in g)
    n += 1
    if ok and bool(got) != bool(regsA):
        fail("contains", f"{A!r} in group", bool(regsA), got, "`name in group` disagrees with the registered set")
    for v in GRID:
        registered = tuple(v) in regsA
        none_compatible = not _compat(regsA, v)
        if not (registered or none_compatible):
            continue  # compatible-but-not-identical: the property does not say what `in` answers
        for how, mk in (("tuple", lambda: (A, tuple(v))), ("ref", lambda: g.PluginRef(name=A, version=tuple(v)))):
            q = f"({A!r}, {tuple(v)}) in group [{how}]"
            ok, got = guarded("contains", q, lambda: mk() in g)
            n += 1
            if ok and bool(got) != registered:
                fail("contains", q, registered, got, "`(name, version) in group` disagrees with the registered set")
    # get(name, v): class of the resolved version
    def plugin_id(c):
        return None if c is None else [c.Plugin.name, [int(x) for x in c.Plugin.version]]

    for v in GRID:
        exp = _compat(regsA, v)
        q = f"get({A!r}, {tuple(v)})"
        ok, got = guarded("get", q, lambda: plugin_id(g.get(A, tuple(v))))
        n += 1
        e1 = [A, exp[-1]] if exp else None
        if ok and got != e1:
            fail("get", q, e1, got, "get(name, v) does not hand out the newest registered version supporting v (or None)")
    q = f"get({A!r})"
    ok, got = guarded("get", q, lambda: plugin_id(g.get(A)))
    n += 1
    e1 = [A, list(regsA[-1])] if regsA else None
    if ok and got != e1:
        fail("get", q, e1, got, "get(name) does not hand out the newest registered version (or None)")
    # the second name registered alongside
    ok, got = guarded("other_name", f"versions({Bn!r})", lambda: [_rt(r) for r in g.versions(Bn)])
    n += 1
    snap_b = got
    if ok and got != refs(Bn, regsB):
        fail("other_name", f"versions({Bn!r})", refs(Bn, regsB), got, "versions of the second plugin name changed by registrations of the first")
    for v in GRID:
        exp = _compat(regsB, v)
        q = f"resolve({Bn!r}, {tuple(v)})"
        ok, got = guarded("other_name", q, lambda: _rt(g.resolve(Bn, tuple(v))))
        n += 1
        e1 = refs(Bn, exp)[-1] if exp else None
        if ok and got != e1:
            fail("other_name", q, e1, got, "resolution of the second plugin name is wrong")
    ok, got = guarded("other_name", f"{Bn!r} in group", lambda: Bn in g)
    n += 1
    if ok and bool(got) != bool(regsB):
        fail("other_name", f"{Bn!r} in group", bool(regsB), got, "`in` for the second plugin name is wrong")
    # a name that was never registered
    for q, fn, e1 in (
        (f"versions({C!r})", lambda: [_rt(r) for r in g.versions(C)], []),
        (f"resolve({C!r})", lambda: _rt(g.resolve(C)), None),
        (f"resolve({C!r}, (1, 0, 0))", lambda: _rt(g.resolve(C, (1, 0, 0))), None),
        (f"{C!r} in group", lambda: bool(C in g), False),
        (f"get({C!r})", lambda: plugin_id(g.get(C)), None),
    ):
        ok, got = guarded("unknown_name", q, fn)
        n += 1
        if ok and got != e1:
            fail("unknown_name", q, e1, got, "a never-registered name is answered as if registered")
    return fails, n, [snap_a, snap_b]


def registry_exec(item: dict) -> dict:
    """One execution on a FRESH group object and fresh plugin classes; stops at the first violating state."""
    from mc import c16_plugins as hp
    from metador_core.plugin.util import register_in_group

    kind = item["kind"]
    names = list(item["names"])
    A, Bn, _C = names
    order = [tuple(v) for v in item["order"]]
    j = int(item["ctor_prefix"])
    mech = item["mechanism"]
    gname = item["own_group"] if kind == "own" else "schema"
    grp_cls = hp.group_class(kind, item["own_group"])

    # full registration sequence: the second name B goes in right after the first version of A
    seq = [("A", v) for v in order]
    seq.insert(1 if seq else 0, ("B", VB))
    if mech is None:
        cut = len(seq)  # everything through the constructor
    elif j == 0:
        cut = 0
    else:
        cut = [i for i, (w, _) in enumerate(seq) if w == "A"][j - 1] + 1
    out = {"violations": [], "transitions": 0, "evaluations": 0, "states": [], "impl_states": [], "final": None}
    model = {"A": [], "B": []}

    def label(after_incremental: bool) -> str:
        return mech if after_incremental else "ctor"

    def viol(mechanism, step, check, what, query=None, expected=None, observed=None):
        out["violations"].append(
            {
                "sig": {"part": "registry", "mechanism": mechanism, "check": check},
                "input": dict(item),
                "config": {"registered_so_far": [[w, list(v)] for w, v in seq[:step]]},
                "step": step,
                "query": query,
                "expected": expected,
                "observed": observed,
                "what": what,
            }
        )

    def observe(g, step, mechanism) -> bool:
        with env.watchdog(env.step_timeout()):
            fails, n, snap = _check_state(g, gname, names, model)
        out["evaluations"] += n
        out["states"].append([sorted(model["A"]), sorted(model["B"])])
        out["impl_states"].append(snap)
        if fails:
            # the previous state was verified, so the transition(s) just executed are responsible; one report
            # per violating state (the most basic failing query), the rest is listed
            f = fails[0]
            viol(mechanism, step, f["check"], f["what"], f["query"], f["expected"], f["observed"])
            out["violations"][-1]["also_failed"] = [x["check"] for x in fails[1:]]
        return not fails

    try:
        # --- constructor part
        eps = {}
        for w, v in seq[:cut]:
            nm = A if w == "A" else Bn
            eps[epname(nm, v)] = hp.entry_point(gname, epname(nm, v), hp.fresh_plugin(kind, nm, v))
        try:
            with env.watchdog(env.step_timeout()):
                g = grp_cls(eps)
        except env.StepTimeout:
            raise
        except Exception as e:
            viol("ctor", cut, "registration_failed", f"PluginGroup(entrypoints) raised {type(e).__name__}: {str(e)[:200]}")
            return out
        for w, v in seq[:cut]:
            model[w].append(tuple(v))
        out["transitions"] += cut
        if not observe(g, cut, "ctor"):
            return out
        # --- incremental part
        for i in range(cut, len(seq)):
            w, v = seq[i]
            nm = A if w == "A" else Bn
            cls = hp.fresh_plugin(kind, nm, v)
            try:
                with env.watchdog(env.step_timeout()):
                    if mech == "_add_ep":
                        g._add_ep(epname(nm, v), hp.entry_point(gname, epname(nm, v), cls))
                    else:
                        register_in_group(g, cls, violently=True)
            except env.StepTimeout:
                raise
            except Exception as e:
                viol(label(True), i + 1, "registration_failed", f"registering {nm} {vstr(v)} raised {type(e).__name__}: {str(e)[:200]}")
                return out
            model[w].append(tuple(v))
            out["transitions"] += 1
            if not observe(g, i + 1, label(True)):
                return out
        out["final"] = [_rt(r) for r in g.versions(A)]
        return out
    except env.StepTimeout:
        viol(mech or "ctor", -1, "hang", "a registry call did not return within the step timeout")
        return out
    finally:
        hp.reset_caches()


def worker_init(**_kw):
    import mc.c16_plugins  # noqa: F401
    from metador_core.plugins import plugingroups, schemas  # noqa: F401


def part_registry(sp: dict, tier: str) -> dict:
    max_k = 4 if tier == "quick" else 6
    items = registry_items(sp, max_k)
    viols = []
    per_sig = {}
    states = set()
    impl_states = set()
    transitions = evals = traces = 0
    per_mech = {}
    samples = []
    with parallel.make_pool("mc.props.c16", {}) as pool:
        res = pool.map("registry_exec", items, chunk=64, item_deadline=30)
        hangs = pool.hangs
    for it, r in zip(items, res):
        mlabel = it["mechanism"] if it["ctor_prefix"] == 0 and it["mechanism"] else ("ctor" if it["mechanism"] is None else "ctor+" + it["mechanism"])
        pm = per_mech.setdefault(f"{it['kind']}:{mlabel}", {"executions": 0, "transitions": 0})
        pm["executions"] += 1
        if r == parallel.HANG:
            viols.append(
                {
                    "sig": {"part": "registry", "mechanism": mlabel, "check": "hang"},
                    "input": dict(it),
                    "what": "execution hung its worker",
                }
            )
            continue
        traces += 1
        transitions += r["transitions"]
        pm["transitions"] += r["transitions"]
        evals += r["evaluations"]
        for s in r["states"]:
            states.add((it["kind"], tuple(map(tuple, s[0])), tuple(map(tuple, s[1]))))
        for s in r["impl_states"]:
            impl_states.add((it["kind"], repr(s)))
        for v in r["violations"]:
            k = repr(sorted(v["sig"].items()))
            per_sig[k] = per_sig.get(k, 0) + 1
            if per_sig[k] <= 2:
                viols.append(v)
        if r["final"] is not None and len(it["order"]) == min(3, max_k) and len(samples) < 4 and it["order"][0] == [1, 1, 0]:
            samples.append(
                {
                    "part": "registry",
                    "group_kind": it["kind"],
                    "plugin": it["names"][0],
                    "registration_order": [vstr(v) for v in it["order"]],
                    "through_constructor": it["ctor_prefix"],
                    "then_mechanism": it["mechanism"],
                    "versions_at_end": [vstr(x[2]) for x in r["final"]],
                }
            )
    if not samples:
        it = items[len(items) // 2]
        samples.append({"part": "registry", "group_kind": it["kind"], "registration_order": [vstr(v) for v in it["order"]], "through_constructor": it["ctor_prefix"], "then_mechanism": it["mechanism"]})
    abstract = {(a, b) for (_k, a, b) in states}
    nontrivial = sum(len(GRID) for (a, _b) in abstract if len(a) >= 2)
    return {
        "violations": viols,
        "evaluations": evals,
        "nontrivial": nontrivial,
        "states": len(states),
        "transitions": transitions,
        "traces": traces,
        "info": {
            "max_subset_size": max_k,
            "executions": len(items),
            "orders": sum(1 for it in items if it["kind"] == "own" and it["mechanism"] is None),
            "distinct_model_states": len(abstract),
            "distinct_model_states_x_group_kind": len(states),
            "distinct_observed_impl_states": len(impl_states),
            "per_group_kind_and_mechanism": per_mech,
            "violating_states_by_class": per_sig,
            "hangs": hangs,
            "grid_queries_per_state": len(GRID),
        },
        "samples": samples,
    }


# =========================================================================== (d) codec

# DESIGN's alphabet {aa,a1,a-b,a_b} plus two segments that carry a separator AND satisfy the documented
# NAME pattern (which wants two leading alphanumerics); names of the grammar that do not match the pattern
# (those containing a-b / a_b) belong to the "rejected consistently" half
SEGS = ["aa", "a1", "a-b", "a_b", "aa-b", "a1_b"]
CODEC_VERSIONS = [(a, b, c) for a in (0, 1, 10) for b in (0, 2, 13) for c in (0, 7)]
# malformed material; "strict" ones contradict the documented grammar beyond doubt, the others are
# only required to be treated the same way by every entry point of the codec
BAD_SEGS = [("a", False), ("1a", True), ("Aa", True), ("a__b", False), ("a-", True), ("-a", True), ("a--b", False), ("", True), ("a b", True), ("aä", True)]
BAD_VERS = ["1.0", "1.0.0.0", "v1.0.0", "1.0.a", "1..0", "-1.0.0", " 1.0.0", "1.0.0 ", "1,0,0", ""]
BAD_WHOLE = ["aa_1.0.0", "aa___1.0.0", "aa__1.0.0__1.0.0", "aa__", "__1.0.0", "aa.bb", "aa.bb__", "aa.bb_1.0.0", "aa.bb__1.0.0\n"]

_DOC_NAME = r"[a-z][a-z0-9]([_-]?[a-z0-9])*"


def codec_names():
    out = []
    for k in (1, 2, 3):
        for segs in itertools.product(SEGS, repeat=k):
            out.append(".".join(segs))
    return out


def codec_valid_case(name: str, v) -> dict | None:
    from metador_core.plugin import types as T

    v = tuple(v)

    def bad(check, what, exp=None, obs=None):
        return {
            "sig": {"part": "codec", "check": check},
            "input": {"name": name, "version": list(v)},
            "what": what,
            "expected": exp,
            "observed": obs,
        }

    canon = epname(name, v)
    try:
        s = T.to_ep_name(name, v)
    except Exception as e:
        return bad("to_ep_name_rejects_valid", f"to_ep_name raised {type(e).__name__} on a valid name/version")
    try:
        n2, v2 = T.from_ep_name(s)
    except Exception as e:
        return bad("from_ep_name_fails", f"from_ep_name(to_ep_name(..)) raised {type(e).__name__}: {str(e)[:120]}", [name, list(v)])
    if n2 != name or tuple(v2) != v:
        return bad("roundtrip_name_version", "from_ep_name(to_ep_name(name, version)) != (name, version)", [name, list(v)], [n2, list(v2)])
    # the other direction, starting from the documented canonical spelling
    try:
        e = T.EPName(canon)
        n3, v3 = T.from_ep_name(e)
    except Exception as ex:
        return bad("from_ep_name_fails", f"parsing the canonical entry point name {canon!r} raised {type(ex).__name__}: {str(ex)[:120]}", [name, list(v)])
    if n3 != name or tuple(v3) != v:
        return bad("parse_canonical", f"from_ep_name({canon!r}) != (name, version)", [name, list(v)], [n3, list(v3)])
    try:
        back = T.to_ep_name(n3, tuple(v3))
    except Exception as ex:
        return bad("roundtrip_ep_name", f"to_ep_name(from_ep_name(s)) raised {type(ex).__name__}", canon)
    if str(back) != canon:
        return bad("roundtrip_ep_name", "to_ep_name(*from_ep_name(s)) != s", canon, str(back))
    return None


def _accepts(fn) -> bool:
    try:
        fn()
        return True
    except env.StepTimeout:
        raise
    except Exception:
        return False


def codec_invalid_case(s: str, strict: bool, pieces) -> dict | None:
    """Malformed entry point name `s`: EPName, from_ep_name round trip, to_ep_name and _add_ep must agree."""
    from mc import c16_plugins as hp
    from metador_core.plugin import types as T

    def bad(check, what, exp=None, obs=None):
        return {
            "sig": {"part": "codec", "check": check},
            "input": {"ep_name": s, "strict": strict, "pieces": pieces},
            "what": what,
            "expected": exp,
            "observed": obs,
        }

    acc = _accepts(lambda: T.EPName(s))
    if strict and acc:
        return bad("invalid_accepted", f"EPName accepts the malformed entry point name {s!r}")
    if acc:
        # whatever is accepted must convert without loss
        try:
            n, v = T.from_ep_name(T.EPName(s))
            if str(T.to_ep_name(n, tuple(v))) != s:
                return bad("roundtrip_ep_name", f"{s!r} is accepted but does not convert back to itself", s)
        except Exception as e:
            return bad("from_ep_name_fails", f"{s!r} is accepted by EPName but from_ep_name/to_ep_name raised {type(e).__name__}")
    if pieces is not None and isinstance(pieces[1], (list, tuple)):
        acc2 = _accepts(lambda: T.to_ep_name(pieces[0], tuple(pieces[1])))
        if acc2 != acc:
            return bad("inconsistent_rejection", f"EPName({s!r}) {'accepts' if acc else 'rejects'} but to_ep_name{tuple(pieces)!r} {'accepts' if acc2 else 'rejects'}")
    # registration must not let a name in that the codec rejects
    g = hp.own_group_class("c16codec")({})
    before = sorted(_rt(r) for r in g.keys())
    ep = hp.entry_point("c16codec", s, hp.fresh_plugin("own", "xx.yy", (0, 1, 0)))
    acc3 = _accepts(lambda: g._add_ep(s, ep))
    after = sorted(_rt(r) for r in g.keys())
    if acc3 and not acc:
        return bad("inconsistent_rejection", f"_add_ep registers {s!r} although EPName rejects it", before, after)
    if not acc3 and after != before:
        return bad("inconsistent_rejection", f"_add_ep refused {s!r} but the registry changed", before, after)
    return None


def codec_invalid_inputs():
    out = []
    for seg, strict in BAD_SEGS:
        for name in (seg, f"aa.{seg}", f"{seg}.aa"):
            out.append((epname(name, (1, 0, 0)), strict, [name, [1, 0, 0]]))
    for bv in BAD_VERS:
        for name in ("aa", "aa.a1_b"):
            out.append((f"{name}__{bv}", True, None))
    for s in BAD_WHOLE:
        out.append((s, True, None))
    # keep only those the documented grammar really excludes (guards against a typo in the lists above)
    doc = re.compile(rf"{_DOC_NAME}(\.{_DOC_NAME})*__[0-9]+\.[0-9]+\.[0-9]+")
    return [(s, strict, p) for (s, strict, p) in out if not doc.fullmatch(s)]


def part_codec(sp: dict, tier: str) -> dict:
    from mc import c16_plugins as hp

    viols = []
    seen_sig = set()
    evals = 0
    names = codec_names()
    docname = re.compile(rf"{_DOC_NAME}(\.{_DOC_NAME})*")
    valid_names = [nm for nm in names if docname.fullmatch(nm)]
    produced = {}
    nontrivial = 0
    grammar_rejects = 0
    for name in names:
        is_valid = docname.fullmatch(name) is not None
        for v in CODEC_VERSIONS:
            evals += 1
            if "." in name or "-" in name or "_" in name:
                nontrivial += 1
            if is_valid:
                r = codec_valid_case(name, v)
            else:
                grammar_rejects += 1
                r = codec_invalid_case(epname(name, v), False, [name, list(v)])
            if r is not None:
                k = repr(sorted(r["sig"].items()))
                if k not in seen_sig:
                    seen_sig.add(k)
                    viols.append(r)
                continue
            if is_valid:
                produced.setdefault(epname(name, v), []).append((name, v))
    # distinct (name, version) never share an entry point name
    if any(len(x) > 1 for x in produced.values()):
        s_, xs = next((k_, x) for k_, x in produced.items() if len(x) > 1)
        viols.append({"sig": {"part": "codec", "check": "not_injective"}, "input": {"name": xs[0][0], "version": list(xs[0][1])}, "what": f"{xs} share the entry point name {s_!r}"})
    # registration through the real entry point path decodes to the same (name, version)
    reg_checked = 0
    for name in valid_names:
        if "." not in name:
            continue  # groups demand a namespace prefix; outside the property
        v = CODEC_VERSIONS[(len(name) * 7) % len(CODEC_VERSIONS)]
        evals += 1
        reg_checked += 1
        r = codec_registry_case(name, v)
        if r is not None:
            k = repr(sorted(r["sig"].items()))
            if k not in seen_sig:
                seen_sig.add(k)
                viols.append(r)
    inv = codec_invalid_inputs()
    for s, strict, pieces in inv:
        evals += 1
        r = codec_invalid_case(s, strict, pieces)
        if r is not None:
            k = repr(sorted(r["sig"].items()))
            if k not in seen_sig:
                seen_sig.add(k)
                viols.append(r)
    hp.reset_caches()
    return {
        "violations": viols,
        "evaluations": evals,
        "nontrivial": nontrivial,
        "info": {
            "names": len(names),
            "versions": len(CODEC_VERSIONS),
            "valid_names": len(valid_names),
            "valid_pairs": len(valid_names) * len(CODEC_VERSIONS),
            "grammar_names_outside_documented_pattern_x_versions": grammar_rejects,
            "registered_through_add_ep": reg_checked,
            "malformed_inputs": len(inv),
        },
        "samples": [{"part": "codec", "name": "aa.a1_b.aa-b", "version": [10, 2, 7], "ep_name": epname("aa.a1_b.aa-b", (10, 2, 7))}, {"part": "codec", "malformed": inv[3][0]}],
    }


def codec_registry_case(name: str, v) -> dict | None:
    from mc import c16_plugins as hp

    v = tuple(v)
    s = epname(name, v)
    g = hp.own_group_class("c16codec")({})
    try:
        g._add_ep(s, hp.entry_point("c16codec", s, hp.fresh_plugin("own", name, v)))
        got = [_rt(r) for r in g.versions(name)]
        res = _rt(g.resolve(name, v))
    except env.StepTimeout:
        raise
    except Exception as e:
        return {
            "sig": {"part": "codec", "check": "registration_of_valid_name"},
            "input": {"name": name, "version": list(v), "via": "_add_ep"},
            "what": f"registering the valid entry point {s!r} raised {type(e).__name__}: {str(e)[:150]}",
        }
    exp = [["c16codec", name, list(v)]]
    if got != exp or res != exp[0]:
        return {
            "sig": {"part": "codec", "check": "registration_of_valid_name"},
            "input": {"name": name, "version": list(v), "via": "_add_ep"},
            "what": f"entry point {s!r} was not registered as ({name!r}, {v})",
            "expected": exp,
            "observed": [got, res],
        }
    return None


# =========================================================================== (e) version-less handles

WAYS_UNVERSIONED = ("get(name)", "group[name]")
WAYS_VERSIONED = ("get(name, version)", "get(ref)", "group[ref]", "group[(name, version)]")


def _obtain(grp, name, version, way):
    if way == "get(name)":
        return grp.get(name)
    if way == "group[name]":
        return grp[name]
    if way == "get(name, version)":
        return grp.get(name, tuple(version))
    if way == "get(ref)":
        return grp.get(grp.PluginRef(name=name, version=tuple(version)))
    if way == "group[ref]":
        return grp[grp.PluginRef(name=name, version=tuple(version))]
    if way == "group[(name, version)]":
        return grp[(name, tuple(version))]
    raise ValueError(way)


def _try_subclass(base):
    """`class X(base): pass` - (created?, exception class name)."""
    try:

        class X(base):  # noqa: F841
            pass

        return True, None
    except env.StepTimeout:
        raise
    except Exception as e:
        return False, type(e).__name__


def _nested_walk(cls, path, depth, out, seen):
    """All nested schemas reachable through the public field inspector: [(path, class)]."""
    if depth <= 0:
        return
    try:
        fields = cls.Fields
        fnames = list(iter(fields))
    except env.StepTimeout:
        raise
    except Exception:
        return
    for f in fnames:
        try:
            schemas_ = fields[f].schemas
            snames = list(iter(schemas_))
        except env.StepTimeout:
            raise
        except Exception:
            continue
        for sn in snames:
            nested = schemas_[sn]
            p = path + [[f, sn]]
            ident = (getattr(nested, "__module__", ""), nested.__name__)
            if ident in seen:
                continue  # this nested schema class was already reached (and is judged) by a shorter path
            seen.add(ident)
            out.append((p, nested))
            _nested_walk(nested, p, depth - 1, out, seen)


def _resolve_nested(root, path):
    cur = root
    for f, sn in path:
        cur = cur.Fields[f].schemas[sn]
    return cur


def subclass_case(inp: dict) -> dict | None:
    from metador_core.plugins import plugingroups

    grp = plugingroups[inp["group"]]
    versioned = inp["way"] in WAYS_VERSIONED
    try:
        h = _obtain(grp, inp["name"], inp["version"], inp["way"])
        h = _resolve_nested(h, inp.get("path") or [])
    except env.StepTimeout:
        raise
    except Exception as e:
        return {
            "sig": {"part": "subclass", "group": inp["group"], "kind": inp["kind"], "versioned": versioned, "check": "obtain_failed"},
            "input": dict(inp),
            "what": f"obtaining the installed plugin failed: {type(e).__name__}: {str(e)[:150]}",
        }
    created, exc = _try_subclass(h)
    if versioned and not created:
        return {
            "sig": {"part": "subclass", "group": inp["group"], "kind": inp["kind"], "versioned": True, "check": "refused_with_version"},
            "input": dict(inp),
            "what": f"`class X(it)` on a {inp['kind']} obtained WITH a version was refused ({exc})",
            "expected": "class created",
            "observed": exc,
        }
    if not versioned and created:
        return {
            "sig": {"part": "subclass", "group": inp["group"], "kind": inp["kind"], "versioned": False, "check": "subclassable_without_version"},
            "input": dict(inp),
            "what": f"`class X(it)` on a {inp['kind']} obtained WITHOUT stating a version succeeded",
            "expected": "refused (TypeError)",
            "observed": "class created",
        }
    return None


def part_subclass(sp: dict, tier: str) -> dict:
    from metador_core.plugins import plugingroups

    viols = []
    seen_sig = set()
    cases = []
    for gname in _installed_groups():
        grp = plugingroups[gname]
        for r in sorted((_rt(k) for k in grp.keys()), key=repr):
            for way in WAYS_UNVERSIONED + WAYS_VERSIONED:
                base = {"group": gname, "name": r[1], "version": r[2], "way": way}
                cases.append(dict(base, kind="plugin", path=[]))
                if gname == "schema" and way in ("get(name)", "get(name, version)"):
                    try:
                        root = _obtain(grp, r[1], r[2], way)
                        found = []
                        _nested_walk(root, [], 4, found, set())
                    except env.StepTimeout:
                        raise
                    except Exception:
                        found = []
                    for p, _c in found:
                        cases.append(dict(base, kind="nested_schema", path=p))
    evals = 0
    nontrivial = 0
    for c in cases:
        evals += 1
        nontrivial += 1
        v = subclass_case(c)
        if v is not None:
            k = repr(sorted(v["sig"].items()))
            if k not in seen_sig:
                seen_sig.add(k)
                viols.append(v)
    nested = [c for c in cases if c["kind"] == "nested_schema"]
    return {
        "violations": viols,
        "evaluations": evals,
        "nontrivial": nontrivial,
        "info": {
            "groups": _installed_groups(),
            "plugin_handles": sum(1 for c in cases if c["kind"] == "plugin"),
            "nested_schema_handles": len(nested),
        },
        "samples": [cases[0]] + (nested[:1]),
    }


# =========================================================================== driver

PARTS = (
    ("order+supports", part_order_supports),
    ("registry", part_registry),
    ("codec", part_codec),
    ("subclass", part_subclass),
)


def run(tier, seed):
    sp = spell(seed)
    cov = {"parts": {}, "spelling": sp}
    violations = []
    evals = nontrivial = 0
    samples = []
    reg = None
    for name, fn in PARTS:
        t0 = time.time()
        r = fn(sp, tier)
        kept = {}
        for v in r["violations"]:
            k = repr(sorted((a, repr(b)) for a, b in v["sig"].items()))
            kept[k] = kept.get(k, 0) + 1
            if kept[k] > 2:
                continue
            v["config"] = dict(v.get("config") or {}, spelling=sp)
            violations.append(v)
        evals += r["evaluations"]
        nontrivial += r["nontrivial"]
        samples += r["samples"]
        info = dict(r["info"], evaluations=r["evaluations"], wall_s=round(time.time() - t0, 2), violation_classes=len({repr(sorted(v["sig"].items())) for v in r["violations"]}))
        cov["parts"][name] = info
        if name == "registry":
            reg = r
    cov.update(
        states=reg["states"],
        transitions=reg["transitions"],
        traces_validated_against_impl=reg["traces"],
        max_depth=reg["info"]["max_subset_size"],
        evaluations=evals,
        distinct_nontrivial=nontrivial,
        samples=samples,
        exhaustive=reg["info"]["hangs"] == 0,
        rule=(
            "complete enumeration, no sampling. (a)/(b): all ordered pairs and all triples of the reference universe "
            "{g,h}x{aa,ab}x{n0,n1,n2}^2x{n0,n1} in two classes (base PluginRef, per-group subclass); pair relations are "
            "measured with the real operators, triples are decided on the measured matrices; non-trivial = ordered pairs of "
            "different references. (c): states = distinct (group kind, registered versions of A, registered versions of B) "
            "reached; transitions = registrations executed (constructor entries count one each); every order of every "
            "subset of V up to the bound x {constructor only, (constructor prefix j, rest by _add_ep | register_in_group)} "
            "on a fresh group object of a harness-owned group and of the schema group class; in every state versions/"
            "resolve/get/in on a 3x3x2 grid, keys, the second name, an unknown name; non-trivial = grid queries in distinct "
            "model states with >=2 registered versions. (d): 1-3 segments of {aa,a1,a-b,a_b,aa-b,a1_b} x {0,1,10}x{0,2,13}x{0,7}, "
            "both directions, plus malformed names; non-trivial = names with a separator. (e): every installed plugin of "
            "every group through 6 public access paths, every distinct nested schema class reachable within 4 steps of the field inspector."
        ),
    )
    return {
        "level": "model_checking",
        "coverage": cov,
        "violations": violations,
        "assumptions": [
            "reference oracle for order = Python tuple order on (group, name, version); for resolution = the property's "
            "definition (same name, same major, minor not smaller; newest wins)",
            "comparison operators are deterministic functions of the two references (checked: every reported instance is "
            "re-evaluated on freshly built objects)",
            "synthetic entry points are real importlib_metadata.EntryPoint objects bound to a fake distribution and "
            "pointing at harness plugin classes; the live plugin groups are only read (part e), never modified",
            "the 'plugingroup' group hands out group instances, not classes, through its public interface and is "
            "therefore outside part (e)",
            "`(name, version) in group` is judged only where the property decides it (version registered -> True, no "
            "compatible version registered -> False)",
        ],
    }


def replay(data):
    env.install_watchdog()
    sig = data["sig"]
    part = sig["part"]
    inp = data["input"]
    if part == "order":
        return order_case(sig, inp["refs"], inp)
    if part == "supports":
        return supports_case(inp["refs"])
    if part == "registry":
        worker_init()
        r = registry_exec(inp)
        same = [v for v in r["violations"] if v["sig"] == sig]
        if same:
            return same[0]
        return r["violations"][0] if r["violations"] else None
    if part == "codec":
        if "ep_name" in inp:
            return codec_invalid_case(inp["ep_name"], bool(inp.get("strict")), inp.get("pieces"))
        if inp.get("via") == "_add_ep":
            return codec_registry_case(inp["name"], inp["version"])
        return codec_valid_case(inp["name"], inp["version"])
    if part == "subclass":
        return subclass_case(inp)
    raise ValueError(f"unknown part {part}")
