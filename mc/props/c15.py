"""C15 - node restrictions cannot be escaped by navigating the container.

Explicit-state search where a state is a *wrapper* (node path, flags, local root); transitions are all
navigation primitives of the group/dataset protocol; BFS to fixpoint from every node x every flag set x
both drivers x both ways of restricting the root. In every reached state the restriction invariants are
checked by attempting every mutating / reading / upward operation of the protocol.
"""
from __future__ import annotations

import mc.env as env  # noqa: F401

import itertools
import time

from mc import contexp, parallel
from mc.impl import h5ops

FLAGS = ("read_only", "local_only", "skel_only")


def worker_init(**kw):
    contexp.worker_init(cfgs={}, envs=["old"])


POOL = [("g", "d", "h", "x", "e"), ("grp", "ds", "sub", "leaf", "top"), ("a", "a", "ab", "b", "c")]


def fixture_paths(seed=0):
    g, d, h, x, e = POOL[seed % len(POOL)]
    return ["/", f"/{g}", f"/{g}/{d}", f"/{g}/{h}", f"/{g}/{h}/{x}", f"/{e}"]


def fixture(driver, seed=0):
    """3-level container with data, attributes and metadata; IH5: spread over two containers."""
    g, d, h, x, e = POOL[seed % len(POOL)]
    c = contexp.Cont(driver)
    mc = c.mc
    mc.create_group(g)
    mc[g].attrs["k"] = 1
    mc[f"{g}/{d}"] = 11
    mc[f"{g}/{d}"].attrs["k"] = 2
    mc[f"{g}/{d}"].meta["vt.bb"] = {"x": 1, "b": 2}
    if driver != "h5":
        c.raw.commit_patch()
        c.raw.create_patch()
    mc.create_group(f"{g}/{h}")
    mc[f"{g}/{h}/{x}"] = 12
    mc[e] = 13
    mc[e].meta["vt.cc"] = {"x": 3, "c": "q"}
    mc["/"].meta["vt.aa"] = {"x": 4}
    mc[g].meta["vt.aa"] = {"x": 5}
    mc.attrs["rk"] = 9
    paths = ["/", f"/{g}", f"/{g}/{d}", f"/{g}/{h}", f"/{g}/{h}/{x}", f"/{e}"]
    return c, paths


def flags_of(w):
    return frozenset(k.name for k, v in w.acl.items() if v)


def lp_chain(w):
    out = []
    cur = getattr(w, "_self_local_parent", None)
    n = 0
    while cur is not None and n < 20:
        out.append(cur.name)
        cur = getattr(cur, "_self_local_parent", None)
        n += 1
    return tuple(out)


def state_key(w):
    from metador_core.container import MetadorContainer

    # deduplication only: the flags of the container object the wrapper hangs on (a restricted view handed out by .file
    # is a different origin than the user's container, although name and own flags agree)
    try:
        c = w if isinstance(w, MetadorContainer) else w._self_container
        cflags = tuple(sorted(flags_of(c)))
    except Exception:
        cflags = None
    return (w.name, "C" if isinstance(w, MetadorContainer) else ("G" if h5ops.is_group(w) else "D"), tuple(sorted(flags_of(w))), lp_chain(w), cflags)


def navigations(w, all_paths):
    """Yield (primitive name, callable returning wrapper(s))."""
    isg = h5ops.is_group(w)
    if isg:
        try:
            ks = list(w.keys())
        except Exception:
            ks = []
        for k in ks:
            yield (f"getitem", lambda k=k: [w[k]])
            yield (f"get", lambda k=k: [w.get(k)])
        for p in all_paths:
            yield ("getitem-abs", lambda p=p: [w[p]])
            yield ("get-abs", lambda p=p: [w.get(p)])
            rel = p.lstrip("/")
            if rel and w.name != "/" and p.startswith(w.name + "/"):
                yield ("getitem-deep", lambda p=p: [w[p[len(w.name) + 1 :]]])
        yield ("values", lambda: list(w.values()))
        yield ("items", lambda: [v for _, v in w.items()])

        def vis():
            out = []
            w.visititems(lambda n, o: out.append(o))
            return out

        yield ("visititems", vis)
        for k in ks:
            yield ("require_group", lambda k=k: [w.require_group(k)])
            yield ("require_dataset", lambda k=k: [w.require_dataset(k, shape=(), dtype="i8")])
    yield ("parent", lambda: [w.parent])
    yield ("file", lambda: [w.file])
    for S in ("vt.aa", "vt.bb", "vt.cc"):
        yield ("metador.query", lambda S=S: list(w.metador.query(S)))
    yield ("metador.query-node", lambda: list(w.metador.query("vt.aa", node=w)))
    # listings of the attached metadata hand out records that carry the node the object is stored in
    yield ("meta.values.node", lambda: [v.node for v in w.meta.values()])
    yield ("meta.items.node", lambda: [v.node for _, v in w.meta.items()])
    for f in FLAGS:
        yield ("restrict-false", lambda f=f: [w.restrict(**{f: False})])

    def acl_mut():
        d = w.acl  # what the user gets is information, not a handle on the restrictions
        for k in list(d):
            d[k] = False
        d.clear()
        return [w]

    yield ("restrict-acl-dict-mutated", acl_mut)


MORE = [(f,) for f in FLAGS] + [tuple(FLAGS)]
STATE_CAP = 1500


def _owner(name):
    """The user node a path belongs to: a stored metadata object (documented layout: <parent>/metador_meta_<node>/<obj>,
    <group>/metador_meta_/<obj>) belongs to the node it is attached to."""
    segs = name.split("/")
    for i, sg in enumerate(segs):
        if sg.startswith("metador_meta_"):
            rest = sg[len("metador_meta_") :]
            own = "/".join(segs[:i] + ([rest] if rest else []))
            return own or "/"
    return name


def raw_dump(cont):
    if cont.driver == "h5":
        return repr(contexp._rawdump(cont.raw))
    return repr([contexp._rawdump(f) for f in cont.raw.__files__])


ATTR_MUTATORS = ["update", "pop", "popitem", "clear", "setdefault", "create", "modify", "__setitem__", "__delitem__"]


def mutation_attempts(w):
    """(name, thunk) for every mutating operation of the protocol on this wrapper."""
    out = []
    isg = h5ops.is_group(w)
    if isg:
        try:
            ks = list(w.keys())
        except Exception:
            ks = []
        out += [
            ("setitem", lambda: w.__setitem__("zz_new", 1)),
            ("create_group", lambda: w.create_group("zz_newg")),
            ("create_dataset", lambda: w.create_dataset("zz_newd", data=1)),
            ("require_group-new", lambda: w.require_group("zz_reqg")),
            ("require_dataset-new", lambda: w.require_dataset("zz_reqd", shape=(), dtype="i8")),
        ]
        for k in ks[:2]:
            out += [
                ("delitem", lambda k=k: w.__delitem__(k)),
                ("move", lambda k=k: w.move(k, "zz_moved")),
                ("copy", lambda k=k: w.copy(k, "zz_copied")),
                ("copy-node", lambda k=k: w.copy(w[k], "zz_copied2")),
            ]
    else:
        out += [
            ("ds-setitem", lambda: w.__setitem__((), 5)),
            ("ds-setitem-ellipsis", lambda: w.__setitem__(Ellipsis, 5)),
        ]
        for nm in ("resize", "write_direct", "make_scale", "flush"):
            if hasattr(w.__wrapped__, nm):
                out.append((f"ds-{nm}", lambda nm=nm: getattr(w, nm)))  # obtaining the bound method must already be refused
    # attributes
    at = lambda: w.attrs  # noqa: E731
    out += [
        ("attrs-setitem", lambda: at().__setitem__("zz", 1)),
        ("attrs-delitem", lambda: at().__delitem__(next(iter(at().keys()), "k"))),
    ]
    raw_attrs = w.__wrapped__.attrs
    for nm in ("update", "pop", "popitem", "clear", "setdefault", "create", "modify"):
        if hasattr(raw_attrs, nm):
            out.append((f"attrs-{nm}", lambda nm=nm: getattr(at(), nm)))
    # metadata
    out += [
        ("meta-setitem", lambda: w.meta.__setitem__("vt.dd", {"x": 1, "d": 2})),
        ("meta-delitem", lambda: w.meta.__delitem__(next(iter(w.meta.keys()), "vt.aa"))),
    ]
    return out


def read_attempts(w):
    """(name, thunk, applicable?) for every operation yielding contents (skel_only must refuse)."""
    out = []
    if not h5ops.is_group(w):
        out.append(("ds-getitem", lambda: w[()]))
        out.append(("ds-getitem-ellipsis", lambda: w[...]))
    ak = list(w.attrs.keys())
    if ak:
        out.append(("attrs-getitem", lambda: w.attrs[ak[0]]))
        out.append(("attrs-get", lambda: w.attrs.get(ak[0])))
        out.append(("attrs-values", lambda: list(w.attrs.values())))
        out.append(("attrs-items", lambda: list(w.attrs.items())))
    mk = list(w.meta.keys())
    if mk:
        out.append(("meta-get", lambda: w.meta.get(mk[0])))
        out.append(("meta-getitem", lambda: w.meta[mk[0]]))
        out.append(("meta-values", lambda: list(w.meta.values())))
        out.append(("meta-items", lambda: list(w.meta.items())))
    return out


def _viol(task, inv, detail, chain, extra=None):
    sig = {"inv": inv, "nav_last": chain[-1] if chain else None, "driver": task["driver"]}
    if extra:
        sig.update(extra)
    return {"sig": sig, "what": detail, "input": dict(task), "nav_chain": list(chain)}


def explore(task):
    """One start state; BFS over navigation to fixpoint. Returns (violations, states, transitions, checks)."""
    from metador_core.container import MetadorContainer

    driver, start, flags, root_mode = task["driver"], task["start"], task["flags"], task["root_mode"]
    cont, paths = fixture(driver, task.get("seed", 0))
    viols = []
    try:
        F0 = frozenset(flags)
        kw = {f: True for f in flags}
        if start == "/" and root_mode == "container":
            w0 = MetadorContainer(cont.raw).restrict(**kw)
        else:
            w0 = cont.mc[start].restrict(**kw) if kw else cont.mc[start]
        local_root = start if "local_only" in F0 else None
        base_dump = raw_dump(cont)
        seen = {}
        frontier = [(w0, ["start"])]
        seen[state_key(w0)] = True
        trans = checks = 0
        sigs_seen = set()

        def report(v):
            k = repr(sorted(v["sig"].items()))
            if k not in sigs_seen:
                sigs_seen.add(k)
                viols.append(v)

        while frontier:
            if len(seen) > STATE_CAP:
                # the wrapper states of the unchanged tree close after a few hundred per start; a change that makes
                # navigation hand out ever new kinds of wrappers (e.g. growing local-parent chains) never would
                report(_viol(task, "navigation-does-not-close", f"more than {STATE_CAP} distinct wrapper states reachable from one start (last: {chain})", chain))
                break
            w, chain = frontier.pop(0)
            # ---- invariants in this state
            fl = flags_of(w)
            bad_state = False
            if not F0 <= fl:
                report(_viol(task, "flags-dropped", f"reached {w.name} with flags {sorted(fl)} from a start restricted as {sorted(F0)} via {chain}", chain))
                continue  # futures of an escaped wrapper are meaningless
            if local_root is not None:
                nm = _owner(w.name)
                inside = nm == local_root or local_root == "/" or nm.startswith(local_root.rstrip("/") + "/")
                if not inside:
                    report(_viol(task, "left-local-root", f"reached {nm} outside local root {local_root} via {chain}", chain))
                    continue
            if "read_only" in F0:
                for name, th in mutation_attempts(w):
                    checks += 1
                    try:
                        th()
                        ok = True
                    except env.StepTimeout:
                        raise
                    except Exception:
                        ok = False
                    if ok:
                        changed = raw_dump(cont) != base_dump
                        report(_viol(task, "mutation-allowed", f"{name} on read-only wrapper of {w.name} (reached via {chain}) did not raise; container changed: {changed}", chain, {"op": name}))
                        bad_state = True
                        break
                if not bad_state and raw_dump(cont) != base_dump:
                    report(_viol(task, "refused-mutation-had-effect", f"refused mutations on {w.name} changed the container", chain))
                    bad_state = True
                if bad_state:
                    break  # container may be modified: stop this exploration
            if "skel_only" in F0:
                for name, th in read_attempts(w):
                    checks += 1
                    try:
                        th()
                        ok = True
                    except env.StepTimeout:
                        raise
                    except Exception:
                        ok = False
                    if ok:
                        report(_viol(task, "skel-read-allowed", f"{name} on skeleton-only wrapper of {w.name} (via {chain}) yielded contents", chain, {"op": name}))
                # existence checks must keep working
                try:
                    list(w.attrs.keys())
                    list(w.meta.keys())
                    if h5ops.is_group(w):
                        list(w.keys())
                        for k in list(w.keys())[:1]:
                            assert k in w
                except Exception as e:
                    report(_viol(task, "skel-existence-refused", f"keys/in on skeleton-only wrapper of {w.name} raised {type(e).__name__}", chain))
            if "local_only" in F0:
                for name, th in (("file", lambda: w.file), ("abs-root", lambda: w["/"] if h5ops.is_group(w) else (_ for _ in ()).throw(KeyError()))):
                    checks += 1
                    try:
                        r = th()
                        ok = True
                    except Exception:
                        ok = False
                    if ok:
                        report(_viol(task, "local-upward-allowed", f"{name} on local-only wrapper of {w.name} (via {chain}) returned {getattr(r, 'name', r)}", chain, {"op": name}))
            # ---- transitions
            for prim, th in navigations(w, paths):
                trans += 1
                before = flags_of(w)
                try:
                    res = th()
                except env.StepTimeout:
                    raise
                except Exception:
                    continue
                if prim.startswith("restrict"):
                    # restrict acts in place: flags may only grow
                    if not before <= flags_of(w):
                        report(_viol(task, "restrict-removed-flag", f"{prim} on {w.name} turned flags {sorted(before)} into {sorted(flags_of(w))}", chain + [prim]))
                # every wrapper handed out is also explored with further restrictions added to it. restrict() acts in
                # place, so each variant is applied to a FRESH wrapper obtained by repeating the navigation step
                # (never to the object that represents the current state or its relatives).
                variants = []
                if not prim.startswith("restrict") and prim not in ("parent", "file"):  # those may hand out SHARED objects
                    for fs in MORE:
                        try:
                            again = th()
                        except Exception:
                            break
                        for r2 in again:
                            if r2 is not None and hasattr(r2, "acl") and r2 is not w and not set(fs) <= flags_of(r2):
                                try:
                                    # the fresh wrapper is USED before it is restricted further (start states cover
                                    # "restricted before any use"): whatever it remembered must not survive restrict()
                                    if h5ops.is_group(r2):
                                        for _k in list(r2.keys())[:2]:
                                            r2[_k], r2.get(_k)
                                        list(r2.values())
                                    r2.restrict(**{f: True for f in fs})
                                    variants.append(r2)
                                except Exception:
                                    pass
                for r in list(res) + variants:
                    if r is None:
                        continue
                    if not hasattr(r, "acl"):
                        if hasattr(r, "attrs") and hasattr(r, "name") and F0:
                            report(_viol(task, "raw-object-leaked", f"{prim} on restricted wrapper of {w.name} (via {chain}) handed out the unwrapped {type(r).__name__} {r.name}", chain + [prim]))
                        continue
                    if not prim.startswith("restrict") and not flags_of(w) <= flags_of(r):
                        report(_viol(task, "flags-dropped", f"{prim} from wrapper of {w.name} with flags {sorted(flags_of(w))} (via {chain}) yields {r.name} with flags {sorted(flags_of(r))}", chain + [prim]))
                        continue
                    k = state_key(r)
                    if k not in seen:
                        seen[k] = True
                        frontier.append((r, chain + [prim]))
        return viols, len(seen), trans, checks
    finally:
        cont.close()


def start_tasks(seed, drivers=("h5", "ih5")):
    tasks = []
    for drv in drivers:
        paths = fixture_paths(seed)
        for p in paths:
            for r in range(0, 4):
                for fs in itertools.combinations(FLAGS, r):
                    modes = ("group", "container") if p == "/" else ("group",)
                    for m in modes:
                        tasks.append({"driver": drv, "start": p, "flags": list(fs), "root_mode": m, "seed": seed})
    return tasks


def run(tier, seed):
    tasks = start_tasks(seed, ("h5", "ih5") if tier == "quick" else ("h5", "ih5", "mf"))
    violations = []
    states = trans = checks = max_states = 0
    with parallel.make_pool("mc.props.c15") as pool:
        res = pool.map("explore", tasks, chunk=2, item_deadline=300)
    for t, r in zip(tasks, res):
        if r == parallel.HANG:
            violations.append(_viol(t, "hang", "exploration hung", []))
            continue
        v, s, tr, ck = r
        violations += v
        max_states = max(max_states, s)
        states += s
        trans += tr
        checks += ck
    cov = {
        "states": states,
        "transitions": trans,
        "traces_validated_against_impl": checks,
        "start_states": len(tasks),
        "max_states_from_one_start": max_states,
        "state_cap_per_start": STATE_CAP,
        "invariant_checks": checks,
        "exhaustive": True,
        "samples": [tasks[len(tasks) // 3], tasks[-1]],
        "rule": "start = every node of a 3-level container with data/attrs/metadata x all 8 flag sets x drivers x (root as group wrapper | restricted container object); "
        "transitions = every navigation primitive (getitem/get by key, by absolute and deep path, values, items, visititems, require_* of existing nodes, parent, file, "
        "metador.query results, restrict(more), restrict(flag=False)); BFS to fixpoint over (path, kind, flags, local-parent chain); in every state: flags >= start flags, "
        "read_only => every protocol mutator raises and the raw dump is unchanged, skel_only => content reads refuse while keys/in work, local_only => nothing outside the local root",
    }
    return {
        "level": "model_checking",
        "coverage": cov,
        "violations": violations,
        "assumptions": ["'the protocol' = util/types.py Protocol classes + meta/metador/restrict/acl + the four dataset mutators the code lists; private attributes (__wrapped__, _self_*) are not navigation", "h5py-only dataset conveniences outside the protocol (asstr, read_direct, __array__) are not checked"],
    }


def replay(data):
    worker_init()
    v, _, _, _ = explore(data["input"])
    want = data["sig"]
    for x in v:
        if x["sig"] == want:
            return x
    return v[0] if v else None
