"""C03 - close/reopen reproduces the view; open modes follow the h5py contract lifted to records.

Part A: for every deduplicated record state of the narrow tree exploration: dump -> close ->
        reopen by name and by the explicit file list in every permutation -> identical dump;
        r+ reopen starts a patch without touching files; discard_patch returns to the last commit.
Part B: the full matrix  on-disk situation x mode x argument form x class x neighbour set.
"""
from __future__ import annotations

import mc.env as env  # noqa: F401

import itertools
import os
import time
from pathlib import Path

import h5py

from mc import ih5lib, parallel, treeexp
from mc.impl import h5ops, ih5

worker_init = treeexp.worker_init


def _fresh_dir(prefix):
    """Scratch directory whose path contains the separators used in container file names ('.p', '.ih5')."""
    d = os.path.join(env.fresh_dir(prefix), "data.prod", "v1.ih5.d")
    os.makedirs(d)
    return d

MODES = ["r", "r+", "a", "w", "w-", "x"]


def _viol(part, kind, detail, **inp):
    sig = {"part": part, "kind": kind}
    for k in ("cls", "situation", "mode", "argform"):
        if k in inp:
            sig[k] = inp[k] if not isinstance(inp[k], (list, tuple)) else inp[k][0]
    return {"sig": sig, "what": detail, "input": inp}


def _try(fn):
    try:
        fn()
        return True
    except env.StepTimeout:
        raise
    except Exception:
        return False


# ------------------------------------------------------------------------------ Part A


def check_reopen(task):
    """Returns (violation | None, number of reopen comparisons)."""
    try:
        return _check_reopen(task)
    except env.StepTimeout:
        raise
    except Exception as e:
        import traceback

        tb = traceback.extract_tb(e.__traceback__)
        where = next((f"{fr.name}:{fr.lineno}" for fr in tb if fr.filename.endswith("c03.py")), "?")
        return _viol("A", "reopen-raised", f"close/reopen/discard sequence raised {type(e).__name__}: {e} (harness step {where})", cfg=task[0], cls=treeexp.CFGS[task[0]]["kind"], history=task[1]), 0


def _check_reopen(task):
    cfg_name, hist = task
    cfg = treeexp.CFGS[cfg_name]
    kind = cfg["kind"]
    cls = ih5.record_class(kind)
    n = 0
    inp = {"cfg": cfg_name, "cls": kind, "history": hist}
    # view at the last commit (for the discard check) and final view
    last_b = max([i for i, op in enumerate(hist) if op[0] == "B"], default=None)
    d = _fresh_dir("r")
    try:
        rec = cls(os.path.join(d, "rec"), "w")
        at_commit = None
        if last_b is not None:
            ih5lib.apply_hist(rec, hist[: last_b + 1])
            at_commit = ih5lib.dump(rec)
            ih5lib.apply_hist(rec, hist[last_b + 1 :], start_n=last_b + 1)
        else:
            ih5lib.apply_hist(rec, hist)
        pre = ih5lib.dump(rec)
        # --- discard_patch on an uncommitted non-base patch
        if last_b is not None:
            files0 = sorted(os.listdir(d))
            rec.discard_patch()
            n += 1
            files1 = sorted(os.listdir(d))
            if len(files0) - len(files1) != 1 or not set(files1) <= set(files0):
                return _viol("A", "discard-files", f"discard_patch changed files {files0} -> {files1}", **inp), n
            v = ih5lib.dump(rec)
            if v != at_commit:
                return _viol("A", "discard-view", "view after discard_patch differs from the view at the last commit", **inp), n
            rec.close()
            rec = cls(os.path.join(d, "rec"), "r")
            if ih5lib.dump(rec) != at_commit:
                return _viol("A", "discard-reopen-view", "reopened view after discard differs from last commit", **inp), n
            rec.close()
            env.rmtree(d)
            d = _fresh_dir("r")
            rec, _ = ih5lib.build(kind, hist, d=d)
            if ih5lib.dump(rec) != pre:
                return _viol("A", "harness-nondet", "rebuilding the same history gave a different view", **inp), n
        rec.close()  # commits
        h0 = ih5lib.dir_hashes(d)
        files = [Path(d) / f for f in sorted((f for f in h0 if f.endswith(".ih5")), key=lambda f: int(f.split(".p")[1].split(".")[0]) if ".p" in f else 0)]
        forms = [("name", os.path.join(d, "rec"))]
        if len(files) <= 4:
            forms += [("list", list(p)) for p in itertools.permutations(files)]
        else:  # long chains (directed cases): a few fixed orders instead of n! permutations
            forms += [("list", list(files)), ("list", list(files[1:]) + [files[0]]), ("list", sorted(files, key=lambda p: p.name[::-1])), ("list", list(reversed(files)))]
        for form, arg in forms:
            n += 1
            r = cls(arg, "r")
            try:
                v = ih5lib.dump(r)
                if v != pre:
                    return _viol("A", "reopen-view", f"view after reopen ({form} {[str(getattr(a,'name',a)) for a in (arg if isinstance(arg, list) else [arg])]}) differs from the view before close", **inp), n
                if [p.name for p in r.ih5_files] != [p.name for p in files]:
                    return _viol("A", "reopen-order", f"ih5_files not in patch order: {[p.name for p in r.ih5_files]}", **inp), n
            finally:
                r.close()
            if ih5lib.dir_hashes(d) != h0:
                return _viol("A", "reopen-r-modified-files", f"opening with 'r' ({form}) and closing changed files on disk", **inp), n
        # r+ : starts a new patch, nothing existing changes, same view; discard brings us back
        for form, arg in (forms[0], forms[-1]):
            n += 1
            r = cls(arg, "r+")
            try:
                h1 = ih5lib.dir_hashes(d)
                new = set(h1) - set(h0)
                if any(h1[k] != h0[k] for k in h0) or len([k for k in new if k.endswith(".ih5")]) != 1:
                    return _viol("A", "reopen-rplus-files", f"'r+' changed existing files or did not create exactly one container: new={sorted(new)}", **inp), n
                if ih5lib.dump(r) != pre:
                    return _viol("A", "reopen-rplus-view", "view after 'r+' reopen differs", **inp), n
                r.discard_patch()
            finally:
                r.close()
            if ih5lib.dir_hashes(d) != h0:
                return _viol("A", "rplus-discard-files", "after r+ / discard_patch / close the directory differs from before", **inp), n
        # r+ . discard . create_patch . write . close, then the record must reopen (r and r+) with the written state
        n += 1
        r = cls(forms[0][1], "r+")
        try:
            r.discard_patch()
            r.create_patch()
            r["/zz_after_discard"] = 77
            exp_after = ih5lib.dump(r)
            r.close()
        except Exception as e:
            try:
                r.close(commit=False)
            except Exception:
                pass
            return _viol("A", "discard-then-patch", f"r+ . discard_patch . create_patch . write . close raised {type(e).__name__}: {e}", **inp), n
        h2 = ih5lib.dir_hashes(d)
        if any(h2.get(k) != h0[k] for k in h0) or len([k for k in set(h2) - set(h0) if k.endswith(".ih5")]) != 1:
            return _viol("A", "discard-then-patch-files", f"unexpected files after discard/create/write/close: new={sorted(set(h2) - set(h0))}", **inp), n
        for mode in ("r", "r+"):
            try:
                r = cls(forms[0][1], mode)
            except Exception as e:
                return _viol("A", "reopen-after-discard-then-patch", f"record written after a discarded patch does not reopen with '{mode}': {type(e).__name__}: {e}", **inp), n
            try:
                if ih5lib.dump(r) != exp_after:
                    return _viol("A", "reopen-after-discard-then-patch-view", f"view differs after reopening with '{mode}'", **inp), n
            finally:
                r.close(commit=False) if mode == "r+" else r.close()
        return None, n
    finally:
        try:
            rec.close(commit=False)
        except Exception:
            pass
        env.rmtree(d)


# ------------------------------------------------------------------------------ Part B

OPS = [
    [["set", "/a/x", "abs"], ["grp", "/g", "abs"], ["sa", "/", "k", "abs"]],
    [["del", "/a", "abs"], ["set", "/b", "abs"]],
    [["set", "/a", "abs"], ["da", "/", "k", "abs"]],
]
SITUATIONS = {
    # name: (number of containers, last one committed?)
    "absent": (0, True),
    "ubase": (1, False),
    "cbase": (1, True),
    "p1": (2, True),
    "p2": (3, True),
    "up1": (2, False),
    "up2": (3, False),
}
NEIGH_POOL = ["foo2", "foo-bar", "fo"]


def _mk(cls, d, name, ncont, committed, salt=0):
    """Create a record with ncont containers; returns the tree history that was applied."""
    hist = []
    rec = cls(os.path.join(d, name), "w")
    for i in range(ncont):
        ops = [list(o) for o in OPS[i]]
        if salt:
            ops = ops + [["set", f"/n{salt}", "abs"]]
        ih5lib.apply_hist(rec, ops, start_n=10 * i + salt * 100)
        hist += ops
        if i < ncont - 1:
            ih5.boundary(rec)
            hist.append(["B"])
    rec.close(commit=committed)
    return hist


def _expected_dump(hist, salt=0):
    """Reference dump for a history made by _mk (values follow the start_n scheme)."""
    m = ih5.new_model()
    try:
        i = 0
        n = salt * 100
        for op in hist:
            if op[0] == "B":
                i += 1
                n = 10 * i + salt * 100
                continue
            n += 1
            r = treeexp._apply(m, list(op), n, False)
            assert r == "ok", (op, r)
        return h5ops.dump_visit(m)
    finally:
        m.close()


NAME_POOLS = [
    ("foo", ["foo2", "foo-bar", "fo"]),
    ("a", ["a1", "a-b", "A"]),
    ("rec-1", ["rec-10", "rec-1-2", "rec"]),
    ("X9", ["X90", "X9-", "X"]),
]


def cells(tier, seed=0):
    name, neigh_names = NAME_POOLS[seed % len(NAME_POOLS)]
    out = []
    for kind in ("ih5", "mf"):
        for sit, (nc, _) in SITUATIONS.items():
            for mode in MODES:
                forms = [("name", 0)]
                if nc:
                    forms += [("list", i) for i in range(len(list(itertools.permutations(range(nc)))))]
                for form in forms:
                    subsets = list(itertools.chain.from_iterable(itertools.combinations(range(3), k) for k in range(4)))
                    if tier == "quick" and form[0] == "list" and form[1] not in (0, 1, 5):
                        subsets = [(), (0, 1, 2)]
                    for sub in subsets:
                        out.append({"cls": kind, "situation": sit, "mode": mode, "argform": list(form), "neigh": list(sub), "name": name, "neigh_names": neigh_names})
                    if nc and form[0] == "name":
                        # the same process has read the existing record before (anything remembered per path is now stale)
                        out.append({"cls": kind, "situation": sit, "mode": mode, "argform": list(form), "neigh": [], "name": name, "neigh_names": neigh_names, "preopen": True})
    return out


def check_cell(cell):
    """Returns (violation | None, checks done)."""
    kind, sit, mode = cell["cls"], cell["situation"], cell["mode"]
    form, fi = cell["argform"]
    cls = ih5.record_class(kind)
    nc, committed = SITUATIONS[sit]
    d = _fresh_dir("m")
    name = cell.get("name", "foo")
    neigh = [cell.get("neigh_names", NEIGH_POOL)[i] for i in cell["neigh"]]
    nchecks = 0
    V = lambda k, det: (_viol("B", k, det, **cell), nchecks)  # noqa: E731
    rec = None
    try:
        for j, nb in enumerate(neigh):
            _mk(cls, d, nb, 2, True, salt=j + 1)
        hist = _mk(cls, d, name, nc, committed) if nc else []
        expected = _expected_dump(hist) if nc else None
        own = sorted(f for f in os.listdir(d) if f.split(".")[0] == name)
        own_cont = [f for f in own if f.endswith(".ih5")]
        if cell.get("preopen"):
            try:
                r0 = cls(os.path.join(d, name), "r")
                ih5lib.dump(r0)
                r0.close()
            except Exception:
                pass
        h0 = ih5lib.dir_hashes(d)
        # --- syntactic discovery
        nchecks += 1
        ff = sorted(p.name for p in cls.find_files(Path(d) / name))
        if ff != own_cont:
            return V("find_files", f"find_files({name}) = {ff}, own containers are {own_cont}, directory {sorted(h0)}")
        lr = sorted(p.name for p in cls.list_records(Path(d)))
        exp_lr = sorted(set(neigh) | ({name} if nc else set()))
        if lr != exp_lr:
            return V("list_records", f"list_records = {lr}, expected {exp_lr}")
        for nb in neigh:
            ffn = sorted(p.name for p in cls.find_files(Path(d) / nb))
            if ffn != sorted(f for f in h0 if f.split(".")[0] == nb and f.endswith(".ih5")):
                return V("find_files", f"find_files({nb}) = {ffn} in directory {sorted(h0)}")
        # --- open
        if form == "name":
            arg = os.path.join(d, name)
        else:
            perm = list(itertools.permutations(own_cont))[fi]
            arg = [Path(d) / f for f in perm]
        try:
            with env.watchdog(20):
                rec = cls(arg, mode)
            opened = True
        except env.StepTimeout:
            return V("open-nonterm", "open did not terminate")
        except Exception as e:
            opened = False
            err = f"{type(e).__name__}: {e}"
        h1 = ih5lib.dir_hashes(d)
        nchecks += 1
        exists = nc > 0
        # expectation
        if form == "list" and mode in ("w", "w-", "x"):
            exp = "raise"
        elif mode in ("w-", "x"):
            exp = "raise" if exists else "create"
        elif mode == "w":
            exp = "create"
        elif mode == "r":
            exp = "ro" if exists else "raise"
        elif mode == "r+":
            exp = ("continue" if not committed else "patch") if exists else "raise"
        else:  # a
            exp = ("continue" if not committed else "patch") if exists else "create"
        if exp == "raise":
            if opened:
                return V("open-should-refuse", f"opening {sit} with mode {mode} ({form}) succeeded, h5py contract refuses")
            if h1 != h0:
                return V("refused-open-changed-files", f"refused open changed the directory: {sorted(set(h0) ^ set(h1))} / modified {[k for k in h0 if k in h1 and h0[k] != h1[k]]}")
            return None, nchecks
        if not opened:
            return V("open-should-succeed", f"opening {sit} with mode {mode} ({form}) failed: {err}")
        # neighbours untouched in every case
        for k in h0:
            if k.split(".")[0] != name and h1.get(k) != h0[k]:
                return V("neighbour-touched", f"opening {name} with {mode} changed/removed neighbour file {k}")
        if set(h1) - set(h0) - {f for f in h1 if f.split(".")[0] == name}:
            return V("foreign-file-created", f"new files not belonging to {name}: {sorted(set(h1) - set(h0))}")
        if exp == "create":
            ownnow = sorted(f for f in h1 if f.split(".")[0] == name)
            if ownnow != [f"{name}.ih5"]:
                return V("w-leaves-old-files" if exists else "create-files", f"after mode {mode} the record's files are {ownnow}, expected only the fresh base (old record had {own})")
            if ih5lib.dump(rec) != ((), ()):
                return V("create-not-empty", "freshly created record is not empty")
            expected_after = []
        else:
            # existing record: committed containers never change
            committed_files = own if committed else [f for f in own if f != own_cont[-1]]
            for f in committed_files:
                if h1.get(f) != h0[f]:
                    return V("open-modified-committed", f"opening with {mode} changed committed file {f}")
            newf = sorted(set(h1) - set(h0))
            if exp == "ro":
                if h1 != h0:
                    return V("r-changed-files", f"opening with 'r' changed the directory: new {newf}")
                if rec.mode != "r":
                    return V("r-mode", f"mode attribute is {rec.mode} after opening with 'r'")
            elif exp == "patch":
                if len(newf) != 1 or not newf[0].endswith(".ih5") or newf[0].split(".")[0] != name:
                    return V("patch-files", f"{mode} on a committed record should add exactly one container, new files: {newf}")
            elif exp == "continue":
                if newf:
                    return V("continue-files", f"{mode} on an uncommitted container created files {newf}")
            v = ih5lib.dump(rec)
            if v != expected:
                return V("open-view", f"view after opening {sit} with {mode} ({form}) differs from what was written")
            expected_after = hist
        nchecks += 1
        if exp == "ro":
            # strictly read-only: every mutation refused, nothing changes
            muts = [
                lambda: rec.__setitem__("/z", 1),
                lambda: rec.__delitem__("/g"),
                lambda: rec.create_group("/zz"),
                lambda: rec.attrs.__setitem__("k2", 1),
                lambda: rec["/g"].attrs.__setitem__("k2", 1),
                lambda: rec.attrs.__delitem__("k"),
                lambda: rec.create_patch(),
                lambda: rec.commit_patch(),
                lambda: rec.discard_patch(),
            ]
            # ... also through every record handle that navigation hands out
            navs = {
                "rec['/g'].file": lambda: rec["/g"].file,
                "rec['/'].file": lambda: rec["/"].file,
                "rec['/g'].parent.file": lambda: rec["/g"].parent.file,
                "rec.attrs.file": lambda: getattr(rec.attrs, "file", None),
                "rec.file": lambda: rec.file,
            }
            for nm, nav in navs.items():
                try:
                    h = nav()
                except Exception:
                    continue
                if h is None:
                    continue
                muts += [
                    (lambda h=h: h.create_patch()),
                    (lambda h=h: h.__setitem__("/zn", 1)),
                    (lambda h=h: h.__delitem__("/g")),
                    (lambda h=h: h.discard_patch()),
                    (lambda h=h: h.commit_patch()),
                ]
            for i, m in enumerate(muts):
                nchecks += 1
                ok = _try(m)
                if ok:
                    return V("r-allows-mutation", f"mutation #{i} succeeded on a record opened with 'r'" + (" (through a navigated record handle)" if i >= 9 else ""))
                if ih5lib.dir_hashes(d) != h0:
                    return V("r-changed-files", f"mutation #{i} on a record opened with 'r' changed the files")
            if ih5lib.dump(rec) != expected:
                return V("r-view-changed", "view changed by refused mutations")
            try:
                rec.close()
            except Exception as e:
                return V("r-close-raised", f"closing a record opened with 'r' raised {type(e).__name__}: {e}")
            rec = None
            if ih5lib.dir_hashes(d) != h0:
                return V("r-changed-files", "files changed after using and closing a record opened with 'r'")
            return None, nchecks
        # writable result: write, close (commits), reopen read-only by name
        if not rec._has_writable:
            return V("not-writable", f"record opened with {mode} has no writable container")
        try:
            rec["/z"] = 424242
            rec.close()
            rec = None
        except Exception as e:
            return V("write-after-open", f"writing/closing after opening with {mode} failed: {type(e).__name__}: {e}")
        m = ih5.new_model()
        try:
            i = 0
            n = 0
            for op in expected_after:
                if op[0] == "B":
                    i += 1
                    n = 10 * i
                    continue
                n += 1
                treeexp._apply(m, list(op), n, False)
            m["/z"] = 424242
            exp_final = h5ops.dump_visit(m)
        finally:
            m.close()
        try:
            r2 = cls(os.path.join(d, name), "r")
        except Exception as e:
            return V("reopen-after-write-failed", f"after {mode}-open, write and close the record does not open any more: {type(e).__name__}: {e}"[:400])
        try:
            nchecks += 1
            if ih5lib.dump(r2) != exp_final:
                return V("view-after-write", f"after {mode}-open, write, close, reopen: view differs from expectation")
        finally:
            r2.close()
        h2 = ih5lib.dir_hashes(d)
        for k in h0:
            if k.split(".")[0] != name and h2.get(k) != h0[k]:
                return V("neighbour-touched", f"using {name} opened with {mode} changed neighbour file {k}")
        if exp != "create":
            for f in committed_files:
                if h2.get(f) != h0[f]:
                    return V("committed-modified", f"using {name} opened with {mode} changed committed file {f}")
        return None, nchecks
    finally:
        if rec is not None:
            try:
                rec.close(commit=False)
            except Exception:
                pass
        env.rmtree(d)


def h5py_contract_check():
    """Third voter: the table above agrees with real h5py.File on single files."""
    d = env.fresh_dir("h")
    n = 0
    try:
        for exists in (False, True):
            for mode in MODES:
                p = os.path.join(d, f"f{n}.h5")
                if exists:
                    with h5py.File(p, "w") as f:
                        f["x"] = 1
                try:
                    f = h5py.File(p, mode)
                    res = "ok-empty" if len(f) == 0 else "ok-data"
                    f.close()
                except Exception:
                    res = "raise"
                if mode in ("w-", "x"):
                    exp = "raise" if exists else "ok-empty"
                elif mode == "w":
                    exp = "ok-empty"
                elif mode in ("r", "r+"):
                    exp = "ok-data" if exists else "raise"
                else:
                    exp = "ok-data" if exists else "ok-empty"
                assert res == exp, (exists, mode, res, exp)
                n += 1
    finally:
        env.rmtree(d)
    return n


def run(tier, seed):
    q = tier == "quick"
    t0 = time.time()
    cfgA = treeexp.make_cfg("A", seed, "narrow", copies=False, moves=False, max_containers=3)
    cfgA4 = treeexp.make_cfg("A4", seed, "narrow", copies=False, moves=False, max_containers=4)
    cfgM = treeexp.make_cfg("M", seed, "narrow", copies=False, moves=False, max_containers=3, kind="mf")
    cfgs = {"A": cfgA, "A4": cfgA4, "M": cfgM}
    depthA, depthA4, depthM = (4, 4, 3) if q else (5, 5, 4)
    nvoter = h5py_contract_check()
    violations = []
    with parallel.make_pool("mc.props.c03", {"cfgs": cfgs}) as pool:
        genpool = pool  # same module exposes the generators below
        fam = {}
        tasks = []
        for name, depth in (("A", depthA), ("A4", depthA4), ("M", depthM)):
            hs, tr = gen_states(genpool, name, depth)
            fam[name] = {"states": len(hs), "transitions": tr, "depth": depth, "max_containers": cfgs[name]["max_containers"]}
            tasks += [(name, h) for h in hs]
        # directed: chains of 12 containers (patch index order differs from file name order from p10 on)
        a, b, c, k = treeexp.spell(seed)
        long_hist = []
        for i in range(11):
            long_hist += [["set" if i % 3 == 0 else "sa", f"/{a}{i}" if i % 3 == 0 else "/", *(([k + str(i)]) if i % 3 else []), "abs"], ["B"]]
        long_hist += [["del", f"/{a}0", "abs"], ["set", f"/{b}", "abs"]]
        tasks += [("A", long_hist), ("M", long_hist)]
        resA = pool.map("check_reopen", tasks, chunk=8, item_deadline=60)
        reopen_cmp = 0
        for t, r in zip(tasks, resA):
            if r == parallel.HANG:
                violations.append(_viol("A", "hang", "reopen check hung", cfg=t[0], history=t[1]))
                continue
            v, n = r
            reopen_cmp += n
            if v:
                violations.append(v)
        cl = cells(tier, seed)
        resB = pool.map("check_cell", cl, chunk=8, item_deadline=60)
        cell_checks = 0
        for c, r in zip(cl, resB):
            if r == parallel.HANG:
                violations.append(_viol("B", "hang", "cell hung", **c))
                continue
            v, n = r
            cell_checks += n
            if v:
                violations.append(v)
    states = sum(f["states"] for f in fam.values())
    cov = {
        "states": states + len(cl),
        "transitions": sum(f["transitions"] for f in fam.values()) + reopen_cmp + len(cl),
        "traces_validated_against_impl": reopen_cmp + cell_checks,
        "record_states": fam,
        "reopen_comparisons": reopen_cmp,
        "matrix_cells": len(cl),
        "matrix_checks": cell_checks,
        "h5py_contract_cells_validated": nvoter,
        "exhaustive": True,
        "samples": [{"part": "A", "cfg": tasks[len(tasks) // 2][0], "history": tasks[len(tasks) // 2][1]}, {"part": "B", "cell": cl[len(cl) // 3]}],
        "rule": "A: every deduplicated record state (raw persisted state) of the narrow tree alphabet up to the depth given per family; "
        "reopen by name and by file list in every permutation, r+ reopen, discard_patch. "
        "B: full cross product situation x mode x argument form (every permutation of the file list) x class x neighbour subset"
        + (" (quick: all 8 neighbour subsets only for name form and 3 of the permutations; 2 subsets otherwise)" if q else ""),
    }
    return {
        "level": "model_checking",
        "coverage": cov,
        "violations": violations,
        "assumptions": ["view before close() is the reference for the view after reopen (differential)", "mode table = h5py.File contract, validated against real h5py on single files"],
    }


# generators live in ih5lib; re-exported so that the pool module can call them by name
expand_fast = ih5lib.expand_fast
init_key_fast = ih5lib.init_key_fast
gen_states = ih5lib.gen_states


def replay(data):
    inp = data["input"]
    if data["sig"]["part"] == "A":
        cfgs = {
            "A": treeexp.make_cfg("A", env.seed(), "narrow", copies=False, moves=False, max_containers=3),
            "A4": treeexp.make_cfg("A4", env.seed(), "narrow", copies=False, moves=False, max_containers=4),
            "M": treeexp.make_cfg("M", env.seed(), "narrow", copies=False, moves=False, max_containers=3, kind="mf"),
        }
        treeexp.worker_init(cfgs)
        v, _ = check_reopen((inp["cfg"], inp["history"]))
        return v
    v, _ = check_cell(inp)
    return v
