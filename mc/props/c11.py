"""C11 - a crash while patching never damages what was committed (fault enumeration).

A writer process runs a patching history under strace; the syscall log is parsed into an ordered
list of file mutations (validated: replaying the whole log reproduces the final files byte for byte).
For every prefix of that list and every torn length of every data-carrying write the crash image is
materialised and judged.
"""
from __future__ import annotations

import mc.env as env  # noqa: F401

import json
import os
from pathlib import Path
import pickle
import subprocess
import sys
import time

from mc import c11_trace as T
from mc import ih5lib, parallel, treeexp
from mc.impl import ih5
from mc.run import _jsonable

_cache = {}


def worker_init(**kw):
    import metador_core.ih5.manifest  # noqa: F401


def norm(x):
    return json.loads(json.dumps(_jsonable(x)))


def trace_scenario(task):
    """Run the writer under strace. Returns path of a pickle with events + commit info."""
    sid, kind, hist, outdir = task
    d = env.fresh_dir("w")
    td = os.path.join(outdir, f"t{sid}")
    os.makedirs(td, exist_ok=True)
    scen = os.path.join(td, "scen.json")
    json.dump({"history": hist, "name": "rec"}, open(scen, "w"))
    log = os.path.join(td, "strace.log")
    res = os.path.join(td, "out.json")
    envv = dict(os.environ)
    envv["PYTHONPATH"] = f"{env.VERIF_DIR}:{env.REPO_DIR}/src"
    envv["PYTHONHASHSEED"] = "0"
    cmd = T.STRACE_ARGS + ["-o", log, sys.executable, "-W", "ignore", "-m", "mc.c11_writer", d, kind, scen, res]
    p = subprocess.run(cmd, env=envv, stdout=subprocess.PIPE, stderr=subprocess.PIPE, timeout=300)
    if p.returncode != 0 or not os.path.exists(res):
        return {"error": f"writer failed rc={p.returncode}: {p.stderr.decode(errors='replace')[-1500:]}"}
    events = T.parse(log, d)
    # self-validation of the log: full replay == final directory
    files = {}
    for e in events:
        T.apply_event(files, e)
    final = {n: open(os.path.join(d, n), "rb").read() for n in os.listdir(d)}
    if {k: bytes(v) for k, v in files.items()} != final:
        return {"error": "replaying the syscall log does not reproduce the final files (harness)"}
    commits = json.load(open(res))["commits"]
    pk = os.path.join(td, "trace.pickle")
    pickle.dump({"events": events, "commits": commits, "kind": kind, "hist": hist}, open(pk, "wb"))
    os.unlink(log)
    env.rmtree(d)
    writes = [(i, len(e[3] if e[0] == "write" else e[2])) for i, e in enumerate(events) if e[0] in ("write", "append")]
    return {"pickle": pk, "n_events": len(events), "writes": writes, "offsets": [(events[i][2] if events[i][0] == "write" else -1) for i, _ in writes], "names": [events[i][1] for i, _ in writes], "ncommits": len(commits)}


def _load(pk):
    if pk not in _cache:
        _cache.clear()
        tr = pickle.load(open(pk, "rb"))
        ev = tr["events"]
        # commit index in force at every event position: j = number of commit-done markers before it
        j = 0
        at = []
        for e in ev:
            at.append(j)
            if e[0] == "mark" and e[1].startswith("commit-done"):
                j += 1
        tr["commit_at"] = at
        # image at each commit-done marker (for byte identity of committed files)
        imgs = {}
        files = {}
        j = 0
        for e in ev:
            T.apply_event(files, e)
            if e[0] == "mark" and e[1].startswith("commit-done"):
                j += 1
                imgs[j] = {n: bytes(files[n]) for n in tr["commits"][j - 1]["files"] if n in files}
        tr["commit_imgs"] = imgs
        _cache[pk] = tr
    return _cache[pk]


def _viol(kind, detail, tr, point):
    return {
        "sig": {"kind": kind, "cls": tr["kind"], "at": point.get("phase")},
        "what": detail,
        "input": {"cls": tr["kind"], "history": tr["hist"], "crash_point": point, "seed": env.seed()},
    }


def _phase(tr, idx):
    """Name of the API call in progress at event idx (last marker before it)."""
    last = "start"
    for e in tr["events"][: idx + 1]:
        if e[0] == "mark":
            last = e[1]
    return last.split(" ")[0]


def judge(tr, files, j, point):
    """files: image {name: bytes-like}; j: number of completed commits. Returns violation or None."""
    cls = ih5.record_class(tr["kind"])
    commits = tr["commits"]
    # (1) committed files byte-identical
    if j >= 1:
        for n, b in tr["commit_imgs"][j].items():
            if n not in files:
                return _viol("committed-file-missing", f"committed file {n} is gone in the crash image", tr, point)
            if bytes(files[n]) != b:
                return _viol("committed-file-changed", f"committed file {n} differs from its content at commit {j}", tr, point)
    # (3) the complete set
    d = env.fresh_dir("i")
    try:
        T.write_image(files, d)
        try:
            with env.watchdog(20):
                r = cls(os.path.join(d, "rec"), "r")
        except env.StepTimeout:
            return _viol("open-nonterm", "opening the crash image does not terminate", tr, point)
        except BaseException as e:
            if isinstance(e, (KeyboardInterrupt, SystemExit)):
                raise
            return "refused"  # fails to open: acceptable
        try:
            meta = r.ih5_meta
            if meta[-1].hdf5_hashsum is None:
                return "uncommitted"  # recognisably uncommitted
            try:
                v = norm(ih5lib.dump(r))
            except Exception as e:
                return _viol("clean-open-unreadable", f"image opens cleanly (hash present) but reading fails: {type(e).__name__}", tr, point)
            nc = len(meta)
            ok_views = []
            if j >= 1:
                ok_views.append((len([f for f in commits[j - 1]["files"] if f.endswith(".ih5")]), commits[j - 1]["view"]))
            if j < len(commits):
                ok_views.append((len([f for f in commits[j]["files"] if f.endswith(".ih5")]), commits[j]["view"]))
            for which, (cnt, view) in zip(("clean-old", "clean-new") if j >= 1 else ("clean-new",), ok_views):
                if nc == cnt and v == view:
                    return which
            return _viol("clean-open-with-unwritten-state", f"crash image opens cleanly with {nc} containers (newest carries a hash) but shows neither the last committed nor the new committed state", tr, point)
        finally:
            r.close()
    finally:
        env.rmtree(d)


def recover(tr, files, j, point):
    """The crash image opens with a recognisably uncommitted patch: continuing from it must not damage what was committed.

    R1: open 'r+' (resumes the interrupted patch - no new container), discard_patch -> exactly the committed files remain,
        byte-identical, showing the state at commit j.
    R2: open 'r+', close() (commits the resumed patch) -> committed files byte-identical, the record opens again ('r' and 'r+').
    """
    cls = ih5.record_class(tr["kind"])
    committed = tr["commit_imgs"][j]
    v = _recover_more(tr, files, j, point, cls, committed)
    if v is not None:
        return v
    for which in ("discard", "commit"):
        d = env.fresh_dir("rc")
        try:
            T.write_image(files, d)
            before = set(os.listdir(d))
            commit_failed = False
            try:
                with env.watchdog(30):
                    r = cls(os.path.join(d, "rec"), "r+")
            except env.StepTimeout:
                return _viol("recovery-nonterm", "opening the crash image with 'r+' does not terminate", tr, point)
            except BaseException as e:
                if isinstance(e, (KeyboardInterrupt, SystemExit)):
                    raise
                continue  # refusing to continue is acceptable
            try:
                new = set(os.listdir(d)) - before
                if any(n.endswith(".ih5") for n in new):
                    return _viol("recovery-stacked-new-container", f"'r+' on a crash image with an interrupted patch created {sorted(new)} instead of resuming it", tr, point)
                if which == "discard":
                    try:
                        r.discard_patch()
                    except Exception:
                        continue
                else:
                    try:
                        r.close()
                    except Exception:
                        # the interrupted patch may be physically incomplete (torn HDF5 structures): failing to
                        # commit it is acceptable - what was committed before must still be intact (checked below)
                        commit_failed = True
            finally:
                try:
                    r.close(commit=False)
                except Exception:
                    pass
            for name, b in committed.items():
                p = os.path.join(d, name)
                if not os.path.exists(p) or open(p, "rb").read() != b:
                    return _viol("recovery-damaged-committed", f"after 'r+' + {which} on the crash image committed file {name} is changed/removed", tr, point)
            if commit_failed:
                continue
            try:
                r2 = cls(os.path.join(d, "rec"), "r")
            except BaseException as e:
                if isinstance(e, (KeyboardInterrupt, SystemExit)):
                    raise
                return _viol("recovery-leaves-unopenable-record", f"after 'r+' + {which} on the crash image the record no longer opens: {type(e).__name__}: {e}", tr, point)
            try:
                if which == "discard" and norm(ih5lib.dump(r2)) != tr["commits"][j - 1]["view"]:
                    return _viol("recovery-discard-view", "after discarding the interrupted patch the record does not show the last committed state", tr, point)
            finally:
                r2.close()
        finally:
            env.rmtree(d)
    return None


def _recover_more(tr, files, j, point, cls, committed):
    """R3: 'r+', discard_patch, then a commit_patch that is refused (nothing to commit) - and a commit_patch on the image
        opened 'r': committed files (manifest sidecars included) stay byte-identical and the record still opens.
    R4: the image opened 'r' and merged into a fresh container: if that is not refused, the result must not open
        cleanly with a state that was never committed."""
    commits = tr["commits"]
    for which in ("discard+refused-commit", "ro-refused-commit", "ro-merge"):
        d = env.fresh_dir("rm")
        md = env.fresh_dir("rmm")
        try:
            T.write_image(files, d)
            try:
                with env.watchdog(30):
                    r = cls(os.path.join(d, "rec"), "r+" if which.startswith("discard") else "r")
            except env.StepTimeout:
                return _viol("recovery-nonterm", "opening the crash image does not terminate", tr, point)
            except BaseException as e:
                if isinstance(e, (KeyboardInterrupt, SystemExit)):
                    raise
                continue
            merged = None
            mtarget = Path(md) / "merged"
            try:
                pending = (r.ih5_meta[-1].patch_uuid, r.ih5_meta[-1].hdf5_hashsum)
            except Exception:
                pending = (None, "?")
            try:
                try:
                    with env.watchdog(30):
                        if which == "discard+refused-commit":
                            r.discard_patch()
                            r.commit_patch()
                        elif which == "ro-refused-commit":
                            r.commit_patch()
                        else:
                            merged = r.merge_files(mtarget)
                except env.StepTimeout:
                    return _viol("recovery-nonterm", f"{which} on the crash image does not terminate", tr, point)
                except Exception:
                    pass
            finally:
                try:
                    r.close(commit=False)
                except Exception:
                    pass
            for name, b in committed.items():
                p = os.path.join(d, name)
                if not os.path.exists(p) or open(p, "rb").read() != b:
                    return _viol("recovery-damaged-committed", f"after {which} on the crash image committed file {name} is changed/removed", tr, point)
            if which != "ro-merge":
                cfiles = [Path(d) / n for n in committed if n.endswith(".ih5")]
                try:
                    r2 = cls(cfiles, "r")
                    r2.close()
                except BaseException as e:
                    if isinstance(e, (KeyboardInterrupt, SystemExit)):
                        raise
                    return _viol("recovery-leaves-unopenable-record", f"after {which} on the crash image the committed containers no longer open: {type(e).__name__}: {e}", tr, point)
            elif merged is not None:
                try:
                    m = cls(mtarget, "r")
                except BaseException as e:
                    if isinstance(e, (KeyboardInterrupt, SystemExit)):
                        raise
                    continue  # does not open: acceptable
                try:
                    if m.ih5_meta[-1].hdf5_hashsum is not None:
                        mv = norm(ih5lib.dump(m))
                        ok = [commits[i]["view"] for i in (j - 1, j) if 0 <= i < len(commits)]
                        if pending[1] is None and m.ih5_meta[-1].patch_uuid == pending[0]:
                            return _viol("uncommitted-patch-passed-off-as-committed", "the crash image (interrupted patch, recognisably uncommitted, opened 'r') can be merged into a container that opens cleanly and identifies itself as that never-committed patch", tr, point)
                        if mv not in ok:
                            return _viol("clean-open-with-unwritten-state", "the crash image (interrupted patch, opened 'r') can be merged into a container that opens cleanly and shows a state that was never committed", tr, point)
                finally:
                    m.close()
        finally:
            env.rmtree(d)
            env.rmtree(md)
    return None


def check_points(task):
    """task = (pickle, event index, list of torn lengths or None for the complete event). Returns (viol|None, n)."""
    pk, idx, torn = task
    tr = _load(pk)
    ev = tr["events"]
    files = {}
    for e in ev[:idx]:
        T.apply_event(files, e)
    n = 0
    j = tr["commit_at"][idx]
    phase = _phase(tr, idx)
    if torn is None:
        T.apply_event(files, ev[idx])
        jj = j + (1 if (ev[idx][0] == "mark" and ev[idx][1].startswith("commit-done")) else 0)
        v = judge(tr, files, jj, {"event": idx, "torn": None, "phase": phase})
        if isinstance(v, str):
            if v == "uncommitted" and jj >= 1:
                rv = recover(tr, files, jj, {"event": idx, "torn": None, "phase": phase})
                if rv is not None:
                    return rv, 2, {v: 1}
                return None, 2, {v: 1, "recovered": 1}
            return None, 1, {v: 1}
        return v, 1, {}
    base = {k: bytearray(b) for k, b in files.items()}
    cats = {}
    for L in torn:
        img = {k: bytearray(b) for k, b in base.items()}
        T.apply_event(img, ev[idx], torn=L)
        n += 1
        v = judge(tr, img, j, {"event": idx, "torn": L, "phase": phase, "file": ev[idx][1], "offset": ev[idx][2] if ev[idx][0] == "write" else None})
        if isinstance(v, str):
            cats[v] = cats.get(v, 0) + 1
        elif v is not None:
            return v, n, cats
    return None, n, cats


def check_committed_alone(task):
    """(2): for every commit j the committed files alone open and show the state at j."""
    pk = task
    tr = _load(pk)
    cls = ih5.record_class(tr["kind"])
    n = 0
    for j, img in tr["commit_imgs"].items():
        d = env.fresh_dir("c")
        try:
            T.write_image(img, d)
            n += 1
            try:
                r = cls(os.path.join(d, "rec"), "r")
            except Exception as e:
                return _viol("committed-set-does-not-open", f"files committed at commit {j} do not open on their own: {type(e).__name__}: {e}", tr, {"commit": j, "phase": "commit-done"}), n
            try:
                if norm(ih5lib.dump(r)) != tr["commits"][j - 1]["view"]:
                    return _viol("committed-set-view", f"files committed at commit {j} show a different state", tr, {"commit": j, "phase": "commit-done"}), n
            finally:
                r.close()
            # recovery from a stale/partial view: continuing from the files of the PREVIOUS commit while the
            # container of commit j exists must not damage any committed file (it may fail)
            if j >= 2:
                n += 1
                prev = [os.path.join(d, f) for f in tr["commits"][j - 2]["files"] if f.endswith(".ih5")]
                from pathlib import Path as _P

                try:
                    rr = cls([_P(p) for p in prev], "r+")
                    try:
                        rr.close(commit=False)
                    except Exception:
                        pass
                except BaseException as e:
                    if isinstance(e, (KeyboardInterrupt, SystemExit)):
                        raise
                for name, b in img.items():
                    p = os.path.join(d, name)
                    if not os.path.exists(p) or open(p, "rb").read() != b:
                        return _viol("retry-from-older-state-damages-committed", f"opening the files of commit {j-1} with 'r+' while the container of commit {j} exists changed/removed committed file {name}", tr, {"commit": j, "phase": "retry"}), n
        finally:
            env.rmtree(d)
    return None, n


def scenarios(tier, seed):
    a, b, c, k = treeexp.spell(seed)
    A, AA, Bp, Cp = f"/{a}", f"/{a}/{a}", f"/{b}", f"/{c}"
    S1 = [["set", AA, "abs"], ["sa", "/", k, "abs"]]
    S2 = S1 + [["B"], ["grp", Bp, "abs"], ["sa", A, k, "abs"]]
    fills = {
        "set": [["set", Cp, "abs"]],
        "del": [["del", A, "abs"]],
        "repl": [["del", A, "abs"], ["set", A, "abs"]],
        "attr": [["sa", A, a, "abs"], ["da", "/", k, "abs"]],
    }
    out = []
    # empty patches: a committed empty patch followed by a filled one, and an empty final patch
    out.append(S1 + [["B"], ["B"]] + fills["set"])
    out.append(S1 + [["B"]])
    if tier == "quick":
        for S in (S1, S2):
            for f in fills.values():
                out.append(S + [["B"]] + f)
    else:
        cfg = treeexp.make_cfg("n", seed, "narrow", copies=False, moves=False)
        ops = [o for o in cfg["ops"] if o[0] != "B"]
        small = [o for o in ops if o[0] in ("set", "del", "sa")][:8]
        for S in (S1, S2):
            for f in fills.values():
                out.append(S + [["B"]] + f)
            for o in ops:
                out.append(S + [["B"], o])
            for o1 in small:
                for o2 in small:
                    out.append(S + [["B"], o1, o2])
        # two successive patches
        out.append(S1 + [["B"]] + fills["del"] + [["B"]] + fills["set"])
    # deduplicate
    seen, res = set(), []
    for h in out:
        key = json.dumps(h)
        if key not in seen:
            seen.add(key)
            res.append(h)
    return res


def torn_lengths(tier, name, offset, length):
    if length <= 1:
        return []
    allL = list(range(1, length))
    if tier != "quick":
        return allL
    if name.endswith(".json") or (offset is not None and 0 <= offset < 1024):
        return allL  # user block and manifest writes: every prefix length
    keep = set(range(1, min(length, 17))) | set(range(max(1, length - 16), length)) | set(range(16, length, 16))
    return sorted(keep)


def run(tier, seed):
    t0 = time.time()
    hists = scenarios(tier, seed)
    outdir = env.fresh_dir("traces")
    violations = []
    n_img = n_prefix = n_alone = 0
    total_events = total_bytes = 0
    harness_errors = []
    outcome = {}
    with parallel.make_pool("mc.props.c11") as pool:
        tasks = [(i, kind, h, outdir) for i, (kind, h) in enumerate((k, h) for h in hists for k in ("ih5", "mf"))]
        traces = pool.map("trace_scenario", tasks, chunk=1, item_deadline=400)
        ptasks = []
        alone = []
        for t, tr in zip(tasks, traces):
            if tr == parallel.HANG or "error" in tr:
                harness_errors.append(str(tr))
                continue
            total_events += tr["n_events"]
            alone.append(tr["pickle"])
            for idx in range(tr["n_events"]):
                ptasks.append((tr["pickle"], idx, None))
            for (idx, ln), off, nm in zip(tr["writes"], tr["offsets"], tr["names"]):
                total_bytes += ln
                Ls = torn_lengths(tier, nm, off, ln)
                for s in range(0, len(Ls), 128):
                    ptasks.append((tr["pickle"], idx, Ls[s : s + 128]))
        if harness_errors:
            raise RuntimeError("C11 writer/trace failed: " + harness_errors[0])
        ptasks.sort(key=lambda x: (x[0], x[1]))  # keeps the per-worker trace cache warm
        res = pool.map("check_points", ptasks, chunk=4, item_deadline=600)
        for t, r in zip(ptasks, res):
            if r == parallel.HANG:
                violations.append({"sig": {"kind": "hang"}, "what": "judging a crash image hung", "input": {"crash_point": {"event": t[1]}}})
                continue
            v, n, cats = r
            for ck, cv in cats.items():
                outcome[ck] = outcome.get(ck, 0) + cv
            if t[2] is None:
                n_prefix += n
            else:
                n_img += n
            if v:
                violations.append(v)
        for pk, r in zip(alone, pool.map("check_committed_alone", alone, chunk=1)):
            v, n = r
            n_alone += n
            if v:
                violations.append(v)
    env.rmtree(outdir)
    cov = {
        "evaluations": n_prefix + n_img + n_alone,
        "distinct_nontrivial": n_prefix + n_img,
        "histories": len(hists),
        "traces": len(tasks),
        "syscall_prefix_images": n_prefix,
        "torn_write_images": n_img,
        "committed_alone_opens": n_alone,
        "image_outcomes": outcome,
        "file_mutation_events": total_events,
        "bytes_written_in_traces": total_bytes,
        "exhaustive": True,
        "rule": "each history (setup . B . fill, final commit; both classes) is run under strace; crash image = every prefix of the ordered file-mutation list "
        "(create/write/pwrite64/ftruncate/unlink/rename) plus every torn length of every data-carrying write"
        + (" (quick: every length for user-block and manifest writes, first/last 16 and every 16th byte for HDF5 payload writes)" if tier == "quick" else "")
        + "; oracle per image: committed files byte-identical, committed set alone opens with the state at its commit, complete set raises / is recognisably "
        "uncommitted / shows exactly the last or the new committed state; every syscall-prefix image that opens as uncommitted is also RECOVERED "
        "twice (r+ then discard_patch / r+ then close): no new container may be stacked, committed files stay byte-identical, the record reopens",
        "samples": [{"cls": "ih5", "history": hists[0], "crash_point": {"event": 20, "torn": 7}}, {"cls": "mf", "history": hists[-1], "crash_point": {"event": 31, "torn": None}}],
    }
    return {
        "level": "fault_enumeration",
        "coverage": cov,
        "violations": violations,
        "assumptions": [
            "process death = syscall order (page cache order); no reordering of unsynced blocks (power loss is outside the property's wording)",
            "strace log is complete for file mutations (validated: full replay reproduces the final files byte for byte)",
        ],
    }


def replay(data):
    inp = data["input"]
    outdir = env.fresh_dir("traces")
    worker_init()
    tr = trace_scenario((0, inp["cls"], [list(o) for o in inp["history"]], outdir))
    if "error" in tr:
        raise RuntimeError(tr["error"])
    cp = inp["crash_point"]
    if "commit" in cp:
        v, _ = check_committed_alone(tr["pickle"])
        return v
    # uuids differ between runs, so lengths/offsets can shift by a few bytes: re-judge the whole event
    idx = cp["event"]
    trd = _load(tr["pickle"])
    idxs = [idx] if idx < len(trd["events"]) else []
    for i in idxs + list(range(len(trd["events"]))):
        e = trd["events"][i]
        v, _, _ = check_points((tr["pickle"], i, None))
        if v:
            return v
        if e[0] in ("write", "append"):
            ln = len(e[3] if e[0] == "write" else e[2])
            v, _, _ = check_points((tr["pickle"], i, list(range(1, ln))))
            if v:
                return v
        if i == idx and cp.get("torn") is None:
            pass
    return None
