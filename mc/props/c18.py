"""C18 - directory diffs are exact and safely ordered.

Exhaustive enumeration of ALL ordered pairs of snapshot trees of a small grammar (see
mc/c18_diff.py: family_specs), each pair judged against an independent reference (flatten,
expected status per path, get() agreement, ordering by simulation on a dict filesystem); every
101st pair is additionally built on tmpfs, snapshotted with dir_hashsums and its nodes() are
applied to the real directory with real syscalls.
"""
from __future__ import annotations

import mc.env as env  # noqa: F401

import json
import time

from mc import c18_diff as D
from mc import parallel

SLICE_K = 101


def run(tier, seed):
    tier = "quick" if tier != "thorough" else "thorough"
    sp = D.spelling(seed)
    specs = dict(D.family_specs(tier), **D.FIXED_SPECS)
    D._W["sp"] = sp
    fams = {n: D.enumerate_trees(spec, D.fam_spelling(n)[0]) for n, spec in specs.items()}
    items = [(n, i) for n, ts in fams.items() for i in range(len(ts))]
    t0 = time.time()
    with parallel.make_pool("mc.c18_diff", {"tier": tier, "seed": seed, "slice_k": SLICE_K}) as pool:
        res = pool.map("check_row", items, chunk=4, item_deadline=600)
    tot = {"pairs": 0, "different": 0, "nodes": 0, "gets": 0, "disk": 0, "disk_match_abstract": 0}
    per_fam = {n: {"trees": len(ts), "pairs": 0} for n, ts in fams.items()}
    classes = {}
    hangs = 0
    for (fam, i), r in zip(items, res):
        if r == parallel.HANG:
            hangs += 1
            classes.setdefault(
                json.dumps({"kind": "hang", "shape": "row"}),
                [1, {"sig": {"kind": "hang", "shape": "row"}, "what": "a whole row of pairs hung its worker", "size": 0,
                     "input": {"family": fam, "i": i, "j": 0, "old": fams[fam][i], "new": fams[fam][0], "mode": "dict", "leaves": sp["leaves"], "absent": sp["absent"]}}],
            )
            continue
        for k in tot:
            tot[k] += r[k]
        per_fam[fam]["pairs"] += r["pairs"]
        for key, (cnt, v) in r["viol"].items():
            slot = classes.get(key)
            if slot is None:
                classes[key] = [cnt, v]
            else:
                slot[0] += cnt
                if v["size"] < slot[1]["size"]:
                    slot[1] = v
    violations = []
    for key, (cnt, v) in sorted(classes.items(), key=lambda kv: (kv[1][1]["size"], kv[0])):
        v = dict(v)
        v["occurrences"] = cnt
        v.pop("size", None)
        violations.append(v)
    expected_pairs = sum(len(ts) ** 2 for ts in fams.values())
    mid = fams["base2"][len(fams["base2"]) // 2]
    last = fams["base2"][-1]
    cov = {
        "evaluations": tot["pairs"] + tot["disk"],
        "distinct_nontrivial": tot["different"],
        "pairs": tot["pairs"],
        "pairs_expected": expected_pairs,
        "pairs_on_disk": tot["disk"],
        "disk_snapshots_equal_to_abstract_snapshots": tot["disk_match_abstract"],
        "nodes_judged": tot["nodes"],
        "get_probes": tot["gets"],
        "families": per_fam,
        "violation_classes": len(violations),
        "hung_rows": hangs,
        "explore_wall_s": round(time.time() - t0, 1),
        "rule": (
            "every ordered pair (old,new) of every tree of each family; family = complete product of a finite grammar "
            f"{json.dumps({n: [[[sp['names'][i] for i in idx], ['absent'] + list(lv) + ['dir']] for idx, lv in spec] for n, spec in specs.items()})} "
            "(per level: names, options per name; a dir at the last level is empty, above it every directory of the next level); "
            "x,y = files (two payloads), s1,s2 = in-directory symlinks (two targets). Inputs are DirHashsums dicts built fresh per pair; "
            f"every pair with (i*N+j) % {SLICE_K} == 0 is also built on tmpfs, fed through dir_hashsums, and nodes() applied with real syscalls. "
            "Oracle: flatten both to path->entry, expected status per path, is_empty <=> equal, listing == exactly the changed paths with "
            "status/prev/curr, get(p)/status agree for every path of the union + 3 absent paths, ordering by simulation on a dict filesystem. "
            "distinct_nontrivial = ordered pairs whose two trees differ (distinct by construction: each ordered pair of distinct enumerated trees occurs once). "
            "VERIF_SEED only respells names/payloads/link targets."
        ),
        "samples": [
            {"old": fams["base2"][1], "new": mid},
            {"old": mid, "new": last},
            {"old": last, "new": fams["base2"][len(fams["base2"]) // 3]},
        ],
        "exhaustive": tot["pairs"] == expected_pairs and hangs == 0,
    }
    return {
        "level": "exploration",
        "coverage": cov,
        "violations": violations,
        "assumptions": [
            "snapshots are DirHashsums dicts as documented (str = file checksum or 'symlink:'+target, dict = directory)",
            "a directory whose content differs counts as a changed path (its entry, the nested dict, differs); the root is path '.'",
            "alphabetical order inside a bucket is not judged (the property only promises applicability of the order)",
            "pydantic 1.10 / CPython 3.12 / tmpfs",
        ],
    }


def replay(data):
    inp = data["input"]
    vs = D.check_input(inp)
    if not vs:
        return None
    want = json.dumps(data.get("sig"), sort_keys=True)
    pick = next((v for v in vs if json.dumps(v["sig"], sort_keys=True) == want), vs[0])
    pick = dict(pick)
    pick["input"] = inp
    return pick
