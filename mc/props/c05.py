"""C05 - merge materialises the overlay view and continues the patch chain.

For every deduplicated source record of the bounded tree exploration (both classes): merge and
compare tree / user block / source untouched / refusal, then for EVERY follow-up patch (1 or 2 ops
from the alphabet) made on the source: open([merged, patch]) == open([source..., patch]).
"""
from __future__ import annotations

import mc.env as env  # noqa: F401

import os
import shutil
import time
from pathlib import Path

from mc import ih5lib, parallel, treeexp
from mc.impl import h5ops, ih5

worker_init = treeexp.worker_init
expand_fast = ih5lib.expand_fast
init_key_fast = ih5lib.init_key_fast


def _viol(kind, detail, cfg_name, hist, follow=None):
    return {
        "sig": {"kind": kind, "cls": treeexp.CFGS[cfg_name]["kind"], "follow": [o[0] for o in follow] if follow else None},
        "what": detail,
        "input": {"cfg": cfg_name, "history": hist, "follow": follow, "seed": env.seed()},
    }


def _meta(rec):
    import json

    # via JSON: a live record holds UUID objects in ub_exts, a loaded one strings
    return [json.loads(ub.json()) for ub in rec.ih5_meta]


def check_merge(task):
    """Returns (violation | None, number of checks, number of follow-ups that succeeded)."""
    cfg_name, hist, fdepth = task
    cfg = treeexp.CFGS[cfg_name]
    kind = cfg["kind"]
    cls = ih5.record_class(kind)
    nck = 0
    nfol = 0
    d = env.fresh_dir("s")
    md = env.fresh_dir("m")
    rec = None
    V = lambda k, det, fol=None: (_viol(k, det, cfg_name, hist, fol), nck, nfol)  # noqa: E731
    try:
        rec, _ = ih5lib.build(kind, hist, d=d)
        # (e) refused while there are uncommitted changes
        nck += 1
        try:
            rec.merge_files(Path(md) / "early")
            return V("merge-with-uncommitted-not-refused", "merge_files succeeded although a writable container exists")
        except Exception:
            pass
        # ... also when the uncommitted container is only visible on disk (record left uncommitted, opened read-only)
        nck += 1
        rec.close(commit=False)
        rro = cls(os.path.join(d, "rec"), "r")
        try:
            try:
                rro.merge_files(Path(md) / "early2")
                return V("merge-with-uncommitted-not-refused", "merge_files succeeded on a record whose newest container is uncommitted (opened with 'r')")
            except Exception:
                pass
            left = [f for f in os.listdir(md) if f.startswith("early")]
            if left:
                return V("refused-merge-left-files", f"refused merge left files behind: {left}")
        finally:
            rro.close()
        rec = cls(os.path.join(d, "rec"), "r+")  # continues the uncommitted container
        rec.commit_patch()
        pre_view = ih5lib.dump(rec)
        pre_meta = _meta(rec)
        pre_files = [str(p) for p in rec.ih5_files]
        pre_manifest = bytes(rec.manifest) if kind == "mf" else None
        h0 = ih5lib.dir_hashes(d)
        try:
            with env.watchdog(30):
                mfile = rec.merge_files(Path(md) / "merged")
        except env.StepTimeout:
            return V("merge-nonterm", "merge_files did not terminate")
        except Exception as e:
            return V("merge-failed", f"merge_files raised {type(e).__name__}: {e}")
        # (d) source untouched, on disk and through the still-open object
        nck += 1
        if ih5lib.dir_hashes(d) != h0:
            return V("source-files-changed", "merge changed files of the source record")
        if _meta(rec) != pre_meta:
            diff = [k for a, b in zip(_meta(rec), pre_meta) for k in a if a[k] != b[k]]
            return V("source-meta-changed", f"ih5_meta of the still-open source changed by merge (fields {sorted(set(diff))})")
        if [str(p) for p in rec.ih5_files] != pre_files:
            return V("source-files-list-changed", "ih5_files of the source changed by merge")
        if ih5lib.dump(rec) != pre_view:
            return V("source-view-changed", "view of the still-open source changed by merge")
        if kind == "mf" and bytes(rec.manifest) != pre_manifest:
            return V("source-manifest-changed", "manifest of the still-open source changed by merge")
        # merging onto the record's own path must be refused and must not touch the source
        nck += 1
        try:
            rec.merge_files(Path(d) / "rec")
            return V("merge-onto-itself-not-refused", "merge_files(<own path>) succeeded")
        except Exception:
            pass
        if ih5lib.dir_hashes(d) != h0:
            return V("source-files-changed", "refused merge onto the record's own path changed/removed files of the source")
        if ih5lib.dump(rec) != pre_view:
            return V("source-view-changed", "refused merge onto the record's own path changed the view")
        # (a) merged tree = overlay view
        nck += 1
        try:
            m = cls(Path(md) / "merged", "r")
        except Exception as e:
            return V("merged-does-not-open", f"the merged container cannot be opened: {type(e).__name__}: {e}")
        try:
            if len(m.ih5_files) != 1 or str(m.ih5_files[0]) != str(mfile):
                return V("merged-not-single", f"merged record has files {m.ih5_files}, merge_files returned {mfile}")
            if ih5lib.dump(m) != pre_view:
                return V("merged-tree", "tree of the merged container differs from the overlay view of the source")
            # (b) identifies itself as the same record at the same patch state
            mm = _meta(m)[0]
            last, base = pre_meta[-1], pre_meta[0]
            for fld in ("record_uuid", "patch_uuid", "patch_index"):
                if mm[fld] != last[fld]:
                    return V("merged-userblock", f"merged user block field {fld} differs from the newest source container")
            if mm["prev_patch"] != base["prev_patch"]:
                return V("merged-userblock", "merged user block prev_patch differs from the base's")
            if mm["hdf5_hashsum"] is None:
                return V("merged-userblock", "merged container has no payload hash")
            if kind == "mf":
                if bytes(m.manifest) != pre_manifest:
                    return V("merged-manifest", "manifest of merged record differs from the source manifest")
        finally:
            m.close()
        # stub refusal (MF only)
        if kind == "mf":
            nck += 1
            sd = env.fresh_dir("st")
            try:
                stub = cls.create_stub(Path(sd) / "stub", Path(str(rec.ih5_files[-1]) + "mf.json"))
                try:
                    try:
                        stub.merge_files(Path(md) / "stubmerge")
                        return V("stub-merge-not-refused", "merge_files on a stub succeeded")
                    except Exception:
                        pass
                    left = [f for f in os.listdir(md) if f.startswith("stubmerge")]
                    if left:
                        return V("stub-merge-left-files", f"refused merge of a stub left files behind: {left}")
                finally:
                    stub.close()
                s2 = cls(Path(sd) / "stub", "r+")
                try:
                    s2["/zz9"] = 1
                    s2.commit_patch()
                    try:
                        s2.merge_files(Path(md) / "stubmerge2")
                        return V("stub-merge-not-refused", "merge_files on stub+patch succeeded")
                    except Exception:
                        pass
                    left = [f for f in os.listdir(md) if f.startswith("stubmerge")]
                    if left:
                        return V("stub-merge-left-files", f"refused merge of stub+patch left files behind: {left}")
                finally:
                    s2.close()
            finally:
                env.rmtree(sd)
        rec.close()
        rec = None
        # the same again for a source that was reopened with its files given out of patch order
        nck += 1
        files_rev = [Path(p) for p in reversed(pre_files)]
        r2 = cls(files_rev, "r")
        try:
            try:
                mfile2 = r2.merge_files(Path(md) / "merged2")
            except Exception as e:
                return V("merge-failed", f"merge_files on a source reopened from a reversed file list raised {type(e).__name__}: {e}")
            if _meta(r2) != pre_meta or ih5lib.dump(r2) != pre_view:
                return V("source-meta-changed", "source reopened from a reversed file list changed by merge")
        finally:
            r2.close()
        try:
            m2 = cls(Path(md) / "merged2", "r")
        except Exception as e:
            return V("merged-does-not-open", f"the container merged from a source reopened from a reversed file list cannot be opened: {type(e).__name__}: {e}")
        try:
            if ih5lib.dump(m2) != pre_view:
                return V("merged-tree", "tree of the container merged from a reordered source differs from the overlay view")
            mm2 = _meta(m2)[0]
            for fld in ("record_uuid", "patch_uuid", "patch_index"):
                if mm2[fld] != pre_meta[-1][fld]:
                    return V("merged-userblock", f"merged user block field {fld} differs from the newest source container (source opened from a reversed file list)")
            if mm2["prev_patch"] != pre_meta[0]["prev_patch"]:
                return V("merged-userblock", "merged user block prev_patch differs from the base's (source opened from a reversed file list)")
        finally:
            m2.close()
        # the same source read and merged through the other record class (manifest class on a record written
        # by the plain class and vice versa): the result must open with the merging class and show the view
        nck += 1
        ocls = ih5.record_class("mf" if kind == "ih5" else "ih5")
        try:
            r3 = ocls([Path(p) for p in pre_files], "r")
        except Exception:
            r3 = None  # reading through the other class is not supported for this record: nothing to check
        if r3 is not None:
            try:
                try:
                    r3.merge_files(Path(md) / "merged3")
                except Exception as e:
                    return V("merge-failed", f"merge_files through {ocls.__name__} on a record written by {cls.__name__} raised {type(e).__name__}: {e}")
            finally:
                r3.close()
            try:
                m3 = ocls(Path(md) / "merged3", "r")
            except Exception as e:
                return V("merged-does-not-open", f"the container merged through {ocls.__name__} from a record written by {cls.__name__} cannot be opened: {type(e).__name__}: {e}")
            try:
                if ih5lib.dump(m3) != pre_view:
                    return V("merged-tree", f"tree of the container merged through {ocls.__name__} differs from the overlay view")
            finally:
                m3.close()
        # (c) chain continuation
        ops = [o for o in cfg["ops"] if o[0] != "B"]
        follows = [[o] for o in ops]
        if fdepth >= 2:
            follows += [[o1, o2] for o1 in ops for o2 in ops]
        for fol in follows:
            cd = env.fresh_dir("c")
            try:
                for f in os.listdir(d):
                    shutil.copy(os.path.join(d, f), os.path.join(cd, f))
                src = cls(os.path.join(cd, "rec"), "r+")
                okall = True
                n = 1000
                for o in fol:
                    n += 1
                    if treeexp._apply(src, list(o), n, True) != "ok":
                        okall = False
                        break
                if not okall:
                    src.close(commit=False)
                    continue
                src.commit_patch()
                view_src = ih5lib.dump(src)
                patch = src.ih5_files[-1]
                src.close()
                nfol += 1
                nck += 1
                try:
                    mp = cls([Path(mfile), Path(patch)], "r")
                except Exception as e:
                    return V("patch-not-accepted-on-merged", f"patch made on the source is refused on the merged container: {type(e).__name__}: {e}", fol)
                try:
                    if ih5lib.dump(mp) != view_src:
                        return V("patch-on-merged-view", "patch applied to merged container shows a different tree than on the source", fol)
                finally:
                    mp.close()
            finally:
                env.rmtree(cd)
        return None, nck, nfol
    finally:
        if rec is not None:
            ih5.discard(rec)
        env.rmtree(d)
        env.rmtree(md)


def _cfgs(seed):
    return {
        "S": treeexp.make_cfg("S", seed, "narrow", copies=False, moves=False, max_containers=3),
        "S4": treeexp.make_cfg("S4", seed, "narrow", copies=False, moves=False, max_containers=4),
        "M": treeexp.make_cfg("M", seed, "narrow", copies=False, moves=False, max_containers=3, kind="mf"),
        # a group name re-appearing deeper in the same path
        "R": treeexp.make_cfg("R", seed, "repeat", copies=False, moves=False, max_containers=2),
    }


def run(tier, seed):
    q = tier == "quick"
    cfgs = _cfgs(seed)
    depths = {"S": 4 if q else 5, "S4": 4 if q else 5, "M": 4 if q else 5, "R": 2 if q else 3}
    violations = []
    fam = {}
    nck = nfol = 0
    with parallel.make_pool("mc.props.c05", {"cfgs": cfgs}) as pool:
        tasks = []
        for name, depth in depths.items():
            hs, tr = ih5lib.gen_states(pool, name, depth)
            fam[name] = {"sources": len(hs), "gen_transitions": tr, "depth": depth, "max_containers": cfgs[name]["max_containers"]}
            for h in hs:
                nb = sum(1 for o in h if o[0] == "B")
                fd = 2 if (not q and nb >= 1 and len(h) <= 3) else 1
                tasks.append((name, h, fd))
        res = pool.map("check_merge", tasks, chunk=2, item_deadline=300)
        for t, r in zip(tasks, res):
            if r == parallel.HANG:
                violations.append(_viol_master("hang", t))
                continue
            v, a, b = r
            nck += a
            nfol += b
            if v:
                violations.append(v)
    cov = {
        "states": sum(f["sources"] for f in fam.values()),
        "transitions": sum(f["gen_transitions"] for f in fam.values()) + nfol,
        "traces_validated_against_impl": nck,
        "follow_up_patches_applied": nfol,
        "families": fam,
        "exhaustive": True,
        "samples": [{"cfg": tasks[len(tasks) // 2][0], "history": tasks[len(tasks) // 2][1]}, {"cfg": tasks[-1][0], "history": tasks[-1][1]}],
        "rule": "every deduplicated source record (raw persisted state) up to the per-family depth; merge; every follow-up patch of 1 op"
        + ("" if q else " (2 ops for short sources with >=1 boundary)")
        + " from the same alphabet applied to a copy of the source and then on top of the merged container",
    }
    return {
        "level": "model_checking",
        "coverage": cov,
        "violations": violations,
        "assumptions": ["overlay view of the source right before merge is the reference for the merged tree (C01 owns overlay correctness)"],
    }


def _viol_master(kind, t):
    return {"sig": {"kind": kind}, "what": "worker hung", "input": {"cfg": t[0], "history": t[1], "follow": None, "seed": env.seed()}}


def replay(data):
    inp = data["input"]
    treeexp.worker_init(_cfgs(inp.get("seed", 0)))
    fol = inp.get("follow")
    v, _, _ = check_merge((inp["cfg"], [list(o) for o in inp["history"]], 2 if fol and len(fol) > 1 else 1))
    return v
