"""C08 - reserved metador_* namespace is invisible and untouchable for users.

Same container BFS as C06 (metadata ops are background events). In every reached state:
 (a) the user-visible tree through every listing primitive == plain-tree reference fed the user ops;
 (b) every path-taking method (reflected from the protocol + public methods of the wrappers) x every
     reserved path (synthetic + real bookkeeping paths of that state) is rejected without effect;
 (c) attributes of the raw object outside the supported protocol are refused, never passed through.
"""
from __future__ import annotations

import mc.env as env  # noqa: F401

import inspect
import time

from mc import contexp, parallel
from mc.contexp import check
from mc.impl import h5ops
from mc.props import c06

PATH_PARAMS = {"name", "path", "source", "dest", "key"}


def path_methods(obj):
    """(method name, [indices of path parameters]) for the group protocol and the wrapper's public methods."""
    from metador_core.util.types import H5GroupLike

    out = {}
    for cls in (H5GroupLike, type(obj)):
        for nm in dir(cls):
            if nm.startswith("_") and nm not in ("__getitem__", "__setitem__", "__delitem__", "__contains__"):
                continue
            fn = getattr(cls, nm, None)
            if not callable(fn):
                continue
            try:
                params = list(inspect.signature(fn).parameters.values())
            except (TypeError, ValueError):
                continue
            params = [p for p in params if p.name != "self" and p.name != "obj"]
            idx = [i for i, p in enumerate(params[:2]) if p.name in PATH_PARAMS]
            if idx and idx[0] == 0:
                out[nm] = idx
    return out


def call_with(g, method, idx, pos, reserved, existing):
    """Call g.method with `reserved` at path position `pos`, plausible arguments elsewhere."""
    fn = getattr(g, method)
    if method in ("__getitem__", "__delitem__", "__contains__", "get", "create_group", "require_group"):
        return fn(reserved)
    if method == "__setitem__":
        return fn(reserved, 1)
    if method == "create_dataset":
        return fn(reserved, data=1)
    if method == "require_dataset":
        return fn(reserved, shape=(), dtype="i8")
    if method in ("move", "copy"):
        other_src = existing or "/nonexistent_src"
        if pos == 0:
            return fn(reserved, "/zz_target")
        return fn(other_src, reserved)
    # unknown public method taking a path: try the generic shapes
    if len(idx) == 2:
        return fn(reserved, "/zz_target") if pos == 0 else fn(existing or "/zz_src", reserved)
    return fn(reserved)


def _raw_fingerprint(cont):
    return contexp.raw_canon(cont), repr(contexp._rawdump(cont.raw) if cont.driver == "h5" else [contexp._rawdump(f) for f in cont.raw.__files__])


@check("user_view")
def user_view(cont, model, cfg, ctx):
    probes = cfg["paths"] + ["/zz", "/" + cfg["paths"][0].strip("/") + "/zz"]
    uv = contexp.user_view(cont.mc, probes)
    ref = h5ops.dump_visit(model.tree)
    for nm in uv["names"]:
        if contexp.is_internal(nm):
            return {"kind": "reserved-name-visible", "what": f"visit() yielded reserved name {nm}"}
    for k in ("visit", "rec", "items"):
        names = [t[0] for t in uv[k][1]]
        bad = [n for n in names if contexp.is_internal(n)]
        if bad:
            return {"kind": "reserved-name-visible", "what": f"listing via {k} exposes {bad[:3]}", "sig": {"via": k}}
        if uv[k] != ref:
            a, b = set(uv[k][1]), set(ref[1])
            return {
                "kind": "user-view",
                "what": f"user-visible tree via {k} differs from the plain tree: only container {sorted(a - b, key=repr)[:4]}, only plain {sorted(b - a, key=repr)[:4]}, root attrs {uv[k][0]} vs {ref[0]}",
                "sig": {"via": k},
            }
    # per group listings
    refg = []

    def grp(g, path):
        ks = sorted(g.keys())
        refg.append((path, tuple(ks), len(ks), tuple(ks), tuple(ks), len(ks)))
        for k in ks:
            if h5ops.is_group(g[k]):
                grp(g[k], path.rstrip("/") + "/" + k)

    grp(model.tree, "/")
    if tuple(sorted(refg)) != uv["groups"]:
        return {"kind": "group-listing", "what": f"keys/len/iter/items/values of some group differ: container {uv['groups']} plain {tuple(sorted(refg))}"}
    for p, inn, got in uv["probes"]:
        exp = p in model.tree
        if inn != exp or got != exp:
            return {"kind": "membership", "what": f"'{p}' in container = {inn}, get = {got}, plain tree has it: {exp}"}
    listing = {path: ks for (path, ks, *_rest) in uv["groups"]}
    for path, rv in uv["reversed"]:
        if rv != listing.get(path):
            return {"kind": "reserved-name-visible" if any(contexp.is_internal(x) for x in rv) else "group-listing", "what": f"reversed() of group {path} yields {rv}, keys() yields {listing.get(path)}", "sig": {"via": "reversed"}}
    refnav = contexp.nav_view(model.tree)
    if uv["nav"] != refnav:
        which = "parent listings" if uv["nav"][0] != refnav[0] else "early-exit visits"
        return {"kind": "navigation", "what": f"{which} differ from the plain tree: container {[x for x in uv['nav'][0] if x not in refnav[0]][:3] or uv['nav'][1]} plain {[x for x in refnav[0] if x not in uv['nav'][0]][:3] or refnav[1]}"}
    return None


def _reserved_scan(cont, model, cfg, ctx, fine):
    mc = cont.mc
    sc = contexp.scan_raw(cont.raw)
    G = cfg["paths"][0]
    g = G.strip("/")
    d = cfg["paths"][1].split("/")[-1]
    synth = ["metador_x", "metador_meta_", "/metador_container", "/metador_container/links", f"{g}/metador_meta_{d}", f"{g}/metador_x/y", "./metador_x", f"{g}//metador_x", f"/{g}/metador_meta_", "metador_container/version"]
    real = sorted(p for p in sc["nodes"] if contexp.is_internal(p))
    real = real[:3] + real[-3:]
    existing = next((p for p in cfg["paths"] if p in model.tree), None)
    groups = [("root", mc)]
    if G in model.tree and h5ops.is_group(model.tree[G]):
        groups.append(("group", mc[G]))
    before = _raw_fingerprint(cont)
    n = 0
    for gname, grp in groups:
        pm = path_methods(grp)
        for method, idx in sorted(pm.items()):
            for pos in idx:
                for rp in synth + real:
                    if gname == "group" and rp.startswith(g + "/"):
                        rp2 = rp[len(g) + 1 :]
                    else:
                        rp2 = rp
                    n += 1
                    try:
                        res = call_with(grp, method, idx, pos, rp2, existing)
                        refused = False
                    except env.StepTimeout:
                        raise
                    except Exception:
                        refused = True
                    if not refused:
                        # invisibility is an acceptable answer for pure queries
                        if method == "__contains__" and res is False:
                            continue
                        if method == "get" and res is None:
                            continue
                        return {
                            "kind": "reserved-path-accepted",
                            "what": f"{gname}.{method}(path position {pos}) accepted reserved path '{rp2}'",
                            "sig": {"method": method, "pos": pos},
                        }
                    if fine and _raw_fingerprint(cont) != before:
                        return {
                            "kind": "reserved-path-effect",
                            "what": f"{gname}.{method} with reserved path '{rp2}' raised but changed the container",
                            "sig": {"method": method, "pos": pos},
                        }
    # copy with a node object as destination and the reserved name given through `name=`
    if existing is not None:
        for gname, grp in groups:
            for rn in ("metador_x", "metador_meta_", "metador_meta_" + d):
                n += 1
                try:
                    grp.copy(existing, grp, name=rn)
                    refused = False
                except env.StepTimeout:
                    raise
                except Exception:
                    refused = True
                if not refused:
                    return {"kind": "reserved-path-accepted", "what": f"{gname}.copy({existing}, <group node>, name='{rn}') accepted a reserved name", "sig": {"method": "copy", "pos": "name"}}
                if fine and _raw_fingerprint(cont) != before:
                    return {"kind": "reserved-path-effect", "what": f"{gname}.copy({existing}, <group node>, name='{rn}') raised but changed the container", "sig": {"method": "copy", "pos": "name"}}
    if _raw_fingerprint(cont) != before:
        return "changed"
    return None


@check("reserved_paths")
def reserved_paths(cont, model, cfg, ctx):
    r = _reserved_scan(cont, model, cfg, ctx, fine=False)
    if r == "changed":
        # something had an effect: rebuild the state and look again call by call
        c2 = contexp.build(cfg, cont.driver, ctx["hist"] + [ctx["op"]])
        try:
            r2 = _reserved_scan(c2, model, cfg, ctx, fine=True)
        finally:
            c2.close()
        if isinstance(r2, dict):
            return r2
        return {"kind": "reserved-path-effect", "what": "refused reserved-path calls changed the container"}
    return r


@check("link_values")
def link_values(cont, model, cfg, ctx):
    """Links (soft/hard/external) would be an alias into the bookkeeping: assignment must be refused, always."""
    import h5py

    mc = cont.mc
    before = _raw_fingerprint(cont)
    vals = [
        ("SoftLink", lambda: h5py.SoftLink("/metador_container")),
        ("SoftLink-meta", lambda: h5py.SoftLink(cfg["paths"][0] + "/metador_meta_")),
        ("ExternalLink", lambda: h5py.ExternalLink("other.h5", "/metador_container")),
        ("HardLink", lambda: h5py.HardLink()),
    ]
    for nm, mk in vals:
        try:
            mc["zz_alias"] = mk()
            ok = True
        except env.StepTimeout:
            raise
        except Exception:
            ok = False
        if ok:
            return {"kind": "link-accepted", "what": f"assigning a {nm} was accepted (alias into the container possible)", "sig": {"value": nm.split("-")[0]}}
    if _raw_fingerprint(cont) != before:
        return {"kind": "link-refused-with-effect", "what": "refused link assignments changed the container"}
    return None


@check("unsupported_attrs")
def unsupported_attrs(cont, model, cfg, ctx):
    """Public attributes of the raw object that are not part of the supported protocol must be refused."""
    from metador_core.util.types import H5FileLike, H5GroupLike

    mc = cont.mc
    G = cfg["paths"][0]
    targets = [("container", mc, H5FileLike)]
    if G in model.tree and h5ops.is_group(model.tree[G]):
        targets.append(("group", mc[G], H5GroupLike))
    for tname, w, proto in targets:
        raw = w.__wrapped__
        own = set()
        for c in type(w).__mro__:
            if c.__module__.startswith("metador_core"):
                own |= set(c.__dict__.keys())
        supported = set(dir(proto)) | own | {"mode", "flush", "close"}
        for nm in sorted(set(dir(raw))):
            if nm.startswith("_") or nm in supported:
                continue
            try:
                getattr(w, nm)
            except Exception:
                continue
            return {"kind": "unsupported-attr-passthrough", "what": f"{tname}.{nm} (not in the supported protocol) is passed through to the raw {type(raw).__name__}", "sig": {"target": tname}}
    return None


def make_cfg(seed, max_dev, name="c08"):
    cfg = c06.make_cfg(name, seed, max_dev=max_dev, checks=("user_view", "reserved_paths", "link_values", "unsupported_attrs"), schemas=["vt.aa", "vt.bb"], names=c06.names_for(name))
    G, GD, E, H, GF = cfg["paths"]
    cfg["ops"] = cfg["ops"][:-2] + [["sa", G, "k"], ["sa", GD, "k"], ["sa", "/", "k"], ["da", "/", "k"], ["mkgrp", H], ["mkds", GF], ["R"], ["B"]]
    return cfg


def run(tier, seed):
    q = tier == "quick"
    cfg = make_cfg(seed, 1 if q else 2)
    depth = {"h5": 3 if q else 4, "ih5": 2 if q else 3}
    budget = 600 if q else 2400
    t0 = time.time()
    fam, violations, samples = {}, [], []
    cfg_odd = make_cfg(seed, 1, name="c08odd")
    with parallel.make_pool("mc.contexp", {"cfgs": {"c08": cfg, "c08odd": cfg_odd}, "envs": ["old"], "check_modules": ["mc.props.c08"]}) as pool:
        for drv in ("h5", "ih5"):
            # the same alphabet over unusual but legal node names (reserved prefix as infix / suffix, '=')
            r = contexp.bfs(pool, "c08odd", cfg_odd, drv, 2 if q else 3, budget_s=budget, t0=t0)
            violations += r.pop("violations")
            r.pop("samples")
            fam[drv + "-odd-names"] = r
        for drv in ("h5", "ih5"):
            r = contexp.bfs(pool, "c08", cfg, drv, depth[drv], budget_s=budget, t0=t0)
            violations += r.pop("violations")
            samples += [{"driver": drv, "history": h} for h in r.pop("samples")[:1]]
            fam[drv] = r
            st = c06.starts(cfg)["rich"]
            r = contexp.bfs(pool, "c08", cfg, drv, 1 if q else 2, budget_s=budget, t0=t0, start=st)
            violations += r.pop("violations")
            fam[f"{drv}-from-rich"] = r
    cov = {
        "states": sum(f["states"] for f in fam.values()),
        "transitions": sum(f["transitions"] for f in fam.values()),
        "traces_validated_against_impl": sum(f["transitions"] for f in fam.values()),
        "families": fam,
        "alphabet": len(cfg["ops"]),
        "exhaustive": not any(f["capped"] for f in fam.values()),
        "samples": samples or [{"history": []}],
        "rule": "container histories as C06 plus user attributes; in every reached state: user view through visititems/visit/keys/values/items/iter/len/in/get from every group "
        "== plain tree fed the same user ops; every reflected path-taking method x every path position x 10 synthetic reserved paths + up to 6 real bookkeeping paths, from the root and "
        "from a group; every public attribute of the raw object outside the protocol must be refused",
    }
    return {"level": "model_checking", "coverage": cov, "violations": violations, "assumptions": ["plain h5py tree is the reference for the user-visible tree", "for `in` and `get` answering False/None counts as rejection (invisibility)"]}


def replay(data):
    c = data["config"]
    cfg = make_cfg(env.seed(), 9, name=c.get("cfg", "c08"))
    cfg["checks"] = c["checks"]
    contexp.worker_init({cfg["name"]: cfg}, envs=["old"], check_modules=["mc.props.c08"])
    return contexp.check_history((cfg, c["driver"], data["history"]))
