"""C19 - directory hashsums identify directory content.

Exhaustive enumeration of every tree of a finite grammar (mc/c19_hashsums.py: family_specs), each
built on tmpfs in two creation orders with different mtimes and snapshotted with dir_hashsums
(sha256 and sha512), then GROUPED BY RESULT: a group must contain exactly one canonical content
description, and one description must have exactly one result.  Every single edit of every accepted
tree either lands inside the grammar (decided by the grouping) or is built and compared explicitly.
"""
from __future__ import annotations

import mc.env as env  # noqa: F401

import json
import time

from mc import c19_hashsums as H
from mc import parallel

PRIM_SIZES = list(range(0, 301)) + [4095, 4096, 4097, 8191, 8192, 8193, 65535, 65536, 65537, 131071, 131072, 131073, 200001]


def _jt(t):
    return json.loads(json.dumps(t))


def _first_diff(t1, t2, salt):
    """Leaf kinds at the first path where the two content descriptions differ."""
    e1, e2 = dict(H.entries(t1)), dict(H.entries(t2))

    def content(v):
        if v is None or isinstance(v, dict):
            return "dir" if v is not None else None
        if v[0] == "f":
            return ("f", H.payload(v[1], salt))
        return ("l", v[2]) if v[0] == "l" else ("o", v[1])

    for p in sorted(set(e1) | set(e2)):
        v1, v2 = e1.get(p), e2.get(p)
        if content(v1) != content(v2):
            return sorted([H.leaf_kind(t1, v1), H.leaf_kind(t2, v2)])
    return ["?", "?"]


def run(tier, seed):
    tier = "quick" if tier != "thorough" else "thorough"
    sp = H.spelling(seed)
    salt = sp["salt"]
    specs = H.family_specs(tier)
    fams, dropped = {}, {}
    for n, spec in specs.items():
        fams[n], dropped[n] = H.enumerate_trees(spec, sp)
    items = [(n, i) for n, ts in fams.items() for i in range(len(ts))]
    flips = [(s, p) for s in H.SIZES for p in range(s)]
    t0 = time.time()
    with parallel.make_pool("mc.c19_hashsums", {"tier": tier, "seed": seed}) as pool:
        res = pool.map("check_tree", items, chunk=16, item_deadline=120)
        t_trees = time.time() - t0
        flip_res = pool.map("check_flip", flips, chunk=16, item_deadline=60)
        prim_res = pool.map("check_primitive", PRIM_SIZES, chunk=8, item_deadline=60)

    classes = {}

    def add(v):
        key = json.dumps(v["sig"], sort_keys=True)
        slot = classes.get(key)
        if slot is None:
            classes[key] = [1, v]
        else:
            slot[0] += 1
            if v.get("size", 0) < slot[1].get("size", 0):
                slot[1] = v

    tot = {"builds": 0, "edits_in_grammar": 0, "edits_built": 0, "edits_skipped_chain": 0}
    status = {}
    edit_kinds = {}
    by_r = {"r256": {}, "r512": {}}  # result digest -> {canon digest: (family, index)}
    by_c = {}  # canon digest -> {r256 digest: (family, index)}
    hangs = 0
    for (fam, i), r in zip(items, res):
        if r == parallel.HANG:
            hangs += 1
            add({"sig": {"kind": "hang"}, "what": "tree hung its worker", "input": {"tree": _jt(fams[fam][i]), "sp": sp}, "size": 0})
            continue
        for k in tot:
            tot[k] += r[k]
        for k, n in r["edit_kinds"].items():
            edit_kinds[k] = edit_kinds.get(k, 0) + n
        status[r["status"]] = status.get(r["status"], 0) + 1
        for v in r["viol"]:
            add(v)
        if r["status"] == "ok":
            for alg in ("r256", "r512"):
                by_r[alg].setdefault(r[alg], {}).setdefault(r["c"], (fam, i))
            by_c.setdefault(r["c"], {}).setdefault(r["r256"], (fam, i))

    # ---- group by result: exactly one canonical description per group
    collisions = 0
    groups256 = {frozenset(m) for m in by_r["r256"].values() if len(m) > 1}
    for alg in ("r256", "r512"):
        for rdig, members in by_r[alg].items():
            if len(members) < 2:
                continue
            collisions += alg == "r256"
            if alg == "r512" and frozenset(members) in groups256:
                continue  # same group as under sha256: already reported there
            mem = sorted(members.items(), key=lambda kv: (H.tree_size(fams[kv[1][0]][kv[1][1]]), kv[0]))
            cset = {c: fi for c, fi in mem}
            explained = set()
            for c, (fam, i) in mem:
                t = fams[fam][i]
                for kind, detail, t2 in H.edits(t, specs[fam], sp):
                    if not H.chain_free(t2):
                        continue
                    c2 = H.digest(H.canon(t2, salt))
                    if c2 in cset and c2 != c:
                        explained.add(c)
                        explained.add(c2)
                        add(
                            {
                                "sig": {
                                    "kind": "edit-invisible",
                                    "edit": kind,
                                    "entry": detail.get("entry") or detail.get("from") or detail.get("what") or "file",
                                    "to": detail.get("to") if kind == "retarget" else None,
                                },
                                "what": f"single edit {kind} {detail} leaves the hashsums unchanged (both trees are in the same result group, {alg})",
                                "input": {"tree": _jt(t), "other": _jt(t2), "edit": [kind, _jt(detail)], "sp": sp},
                                "size": H.tree_size(t),
                            }
                        )
            c0, (f0, i0) = mem[0]
            for c, (fam, i) in mem[1:]:
                if c in explained and c0 in explained:
                    continue
                t1, t2 = fams[f0][i0], fams[fam][i]
                add(
                    {
                        "sig": {"kind": "equal-hashsums-different-content", "diff": _first_diff(t1, t2, salt)},
                        "what": f"two trees with different content get equal hashsums ({alg})",
                        "input": {"tree": _jt(t1), "other": _jt(t2), "sp": sp},
                        "size": H.tree_size(t1) + H.tree_size(t2),
                    }
                )
    # ---- one canonical description -> one result (link spelling, creation order)
    for c, rs in by_c.items():
        if len(rs) > 1:
            (fa, ia), (fb, ib) = list(rs.values())[:2]
            t1, t2 = fams[fa][ia], fams[fb][ib]
            styles = sorted({v[1] for t in (t1, t2) for _, v in H.entries(t) if not isinstance(v, dict) and v[0] == "l"})
            add(
                {
                    "sig": {"kind": "equal-content-different-hashsums", "styles": styles},
                    "what": "two trees with the same canonical content (same names, bytes, link target locations) get different hashsums",
                    "input": {"tree": _jt(t1), "other": _jt(t2), "sp": sp},
                    "size": H.tree_size(t1) + H.tree_size(t2),
                }
            )
    n_flip = 0
    for r in flip_res:
        n_flip += 1
        if r == parallel.HANG:
            hangs += 1
        elif r is not None:
            add(r)
    n_prim = 0
    for r in prim_res:
        if r == parallel.HANG:
            hangs += 1
            continue
        vs, n = r
        n_prim += n
        for v in vs:
            add(v)

    violations = []
    for key, (cnt, v) in sorted(classes.items(), key=lambda kv: (kv[1][1].get("size", 0), kv[0])):
        v = dict(v)
        v["occurrences"] = cnt
        v.pop("size", None)
        violations.append(v)

    accepted_canons = len(by_c)
    nontrivial = sum(1 for c, rs in by_c.items() for fi in [next(iter(rs.values()))] if fams[fi[0]][fi[1]])
    mid = fams["links"][len(fams["links"]) // 2]
    cov = {
        "evaluations": tot["builds"] + 2 * n_flip + n_prim,
        "distinct_nontrivial": nontrivial,
        "trees": len(items),
        "trees_per_family": {n: len(ts) for n, ts in fams.items()},
        "trees_dropped_by_chain_filter": dropped,
        "tree_status": status,
        "tree_builds_hashed": tot["builds"],
        "distinct_canonical_descriptions_accepted": accepted_canons,
        "result_groups_sha256": len(by_r["r256"]),
        "result_groups_with_more_than_one_description": collisions,
        "single_edits": tot["edits_in_grammar"] + tot["edits_built"],
        "single_edits_decided_by_grouping": tot["edits_in_grammar"],
        "single_edits_built_explicitly": tot["edits_built"],
        "single_edits_skipped_link_chain": tot["edits_skipped_chain"],
        "single_edits_by_kind": edit_kinds,
        "byte_flip_positions_one_file_trees": n_flip,
        "primitive_digest_comparisons": n_prim,
        "violation_classes": len(violations),
        "hung_items": hangs,
        "explore_wall_s": round(time.time() - t0, 1),
        "trees_wall_s": round(t_trees, 1),
        "rule": (
            "every tree over names " + json.dumps(sp["names"]) + ", depth <= 2 (top-level entry or a directory of two entries; a directory at depth 2 is empty) of two families: "
            + json.dumps({n: {"files(size[^flipped byte])": s["files"], "inside_links": s["links"], "outside_links": s["outside"], "cousin_targets": s["cousins"]} for n, s in specs.items()})
            + "; inside links: sibling spelled plain/../-detour/absolute, dangling, .. (base itself, from depth 2), ../other top entry, other-dir/child; "
            "trees in which a link designates or passes through another symlink are excluded (link chains). Each tree is built twice on tmpfs "
            "(ascending names + old mtimes / links first, descending names + current mtimes) and hashed with sha256 (both) and sha512. "
            "Group by result: one canonical description per group and one result per description; trees with an outside link must raise; "
            "every regular-file entry == alg:hashlib digest. Single edits of every accepted tree: byte flip first/last byte, rename to the free "
            "alphabet name or a fresh third name, add file/empty dir under every free name + fresh name in every dir, remove, file->dir, dir->file, "
            "retarget of every link to every other file/dir of the tree and to a fresh dangling name; an edit whose result is in the grammar is decided "
            "by the grouping, any other is built and compared. Plus byte flip at every position of one-file trees for all sizes, and "
            f"hashsum/qualified_hashsum/file_hashsum vs hashlib for every size 0..300 and sizes around 4 KiB / 8 KiB / 64 KiB / 128 KiB / 200001 with bytes, BytesIO, short-read streams. "
            "distinct_nontrivial = number of distinct canonical content descriptions with >= 1 entry among the accepted grammar trees (counted from a set). "
            "VERIF_SEED only respells names, base dir name, dangling names and payload bytes."
        ),
        "samples": [_jt(fams["sizes"][len(fams["sizes"]) // 2]), _jt(mid), _jt(fams["links"][-1])],
        "exhaustive": hangs == 0 and len(res) == len(items),
    }
    return {
        "level": "exploration",
        "coverage": cov,
        "violations": violations,
        "assumptions": [
            "content of a symlink = the in-directory location it designates (spelling of the target is not content), as documented for rel_symlink",
            "a link to the base directory itself may be accepted or rejected (both count as fine)",
            "link chains (a link designating or passing through another link) are outside the enumerated space",
            "any exception counts as 'rejected'; exception class/message are not judged",
            "tmpfs, CPython 3.12",
        ],
    }


def replay(data):
    inp = data["input"]
    sp = inp["sp"]
    sig = data.get("sig") or {}
    want = json.dumps(sig, sort_keys=True)

    def pick(vs):
        if not vs:
            return None
        v = dict(next((v for v in vs if json.dumps(v["sig"], sort_keys=True) == want), vs[0]))
        v["input"] = inp
        return v

    if "prim_size" in inp:
        vs, _ = H.judge_primitive(inp["prim_size"], sp)
        return pick(vs)
    t1 = H.norm(inp["tree"])
    if "other" in inp:
        why = H.judge_pair(t1, H.norm(inp["other"]), sp)
        if why is None:
            return None
        return {"sig": sig, "what": why, "input": inp}
    vs, _ = H.judge_tree(t1, sp)
    return pick(vs)
