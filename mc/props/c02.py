"""C02 - committed IH5 containers (and manifest sidecars) are never modified again.

BFS over the record *lifecycle* alphabet on real records; after every transition a monitor
checks byte identity of everything that was ever committed and re-opens the committed file set.
"""
from __future__ import annotations

import mc.env as env  # noqa: F401

import hashlib
import json
import os
import time
from pathlib import Path

import h5py

from mc import ih5lib, parallel, treeexp
from mc.impl import h5ops, ih5

CFG = {}


def worker_init(cfg=None):
    CFG.clear()
    CFG.update(cfg or {})
    import metador_core.ih5.manifest  # noqa: F401


def alphabet(seed=0):
    a, b, c, k = treeexp.spell(seed)
    writes = [
        ["set", f"/{a}", "abs"],
        ["del", f"/{a}", "abs"],
        ["grp", f"/{b}", "abs"],
        ["set", f"/{b}/{a}", "abs"],
        ["del", f"/{b}", "abs"],
        ["sa", "/", k, "abs"],
        ["da", "/", k, "abs"],
        ["sa", f"/{b}", k, "abs"],
    ]
    ops = [["w"] + w for w in writes]
    ops += [["read"], ["create_patch"], ["commit_patch"], ["discard_patch"], ["close", True], ["close", False]]
    ops += [["open", m, form] for m in ("r", "r+", "a") for form in ("name", "list")]
    # a proper prefix of the chain (all but the newest container): e.g. a stale view of the record
    ops += [["open", m, "prefix"] for m in ("r", "r+")]
    # manifest record opened with the sidecar of its newest container named explicitly (manifest_file=)
    ops += [["open", m, "mf-explicit"] for m in ("r", "r+")]
    # exclusive create on an existing record: must be refused without effect
    ops += [["open", m, "name"] for m in ("x", "w-")]
    ops += [["merge"], ["merge_again"]]
    return ops


def ub_committed(path) -> bool:
    """Own reading of the documented user block: does the container carry a payload hash?"""
    try:
        with open(path, "rb") as f:
            head = f.read(1024)
        lines = head.split(b"\n", 2)
        if len(lines) != 3 or lines[0] != b"ih5_v01":
            return False
        js = lines[2].split(b"\x00", 1)[0]
        return json.loads(js).get("hdf5_hashsum") is not None
    except Exception:
        return False


class Life:
    def __init__(self, kind, name="rec"):
        self.kind = kind
        self.cls = ih5.record_class(kind)
        self.dir = env.fresh_dir("l")
        self.mdir = os.path.join(self.dir, "merged")
        os.makedirs(self.mdir)
        self.path = os.path.join(self.dir, name)
        self.name = name
        self.rec = self.cls(self.path, "w")
        self.n = 0
        self.committed = {}  # file name -> sha256 at the time it was first seen committed
        self.snapshots = []  # (sorted container names, dump at that commit)
        self.nmerge = 0
        self.partial_view = False

    # -- harness-side knowledge
    def containers(self):
        return sorted(
            (f for f in os.listdir(self.dir) if f.endswith(".ih5")),
            key=lambda f: (0 if f == f"{self.name}.ih5" else int(f.split(".p")[1].split(".")[0])),
        )

    def scan(self):
        """Returns violation text or None. Updates the committed set."""
        present = {f: ih5lib.sha(os.path.join(self.dir, f)) for f in os.listdir(self.dir) if os.path.isfile(os.path.join(self.dir, f))}
        for f in os.listdir(self.mdir):  # merge results are committed records, too
            present["merged/" + f] = ih5lib.sha(os.path.join(self.mdir, f))
        for f, h in self.committed.items():
            if f not in present:
                return ("committed-removed", f"committed file {f} disappeared")
            if present[f] != h:
                return ("committed-modified", f"committed file {f} changed on disk")
        grew = False
        for f in present:
            if f.startswith("merged/"):
                if f not in self.committed and (not f.endswith(".ih5") or ub_committed(os.path.join(self.dir, f))):
                    self.committed[f] = present[f]
                continue
            if f.endswith(".ih5") and f not in self.committed and ub_committed(os.path.join(self.dir, f)):
                self.committed[f] = present[f]
                grew = True
                side = f + "mf.json"
                if side in present:
                    self.committed[side] = present[side]
        return ("grew", None) if grew else None

    def apply(self, op):
        """Returns 'ok' / 'fail' / 'na' (op not enabled in this state)."""
        k = op[0]
        self.n += 1
        rec = self.rec
        try:
            if k == "open":
                if rec is not None:
                    return "na"
                if op[2] == "name":
                    arg = self.path
                elif op[2] == "prefix":
                    cs = self.containers()
                    if len(cs) < 2:
                        return "na"
                    arg = [Path(self.dir) / f for f in cs[:-1]]
                elif op[2] == "mf-explicit":
                    cs = self.containers()
                    side = Path(self.dir) / (cs[-1] + "mf.json")
                    if self.kind != "mf" or not side.is_file():
                        return "na"
                    self.rec = self.cls([Path(self.dir) / f for f in cs], op[1], manifest_file=side)
                    self.partial_view = False
                    return "ok"
                else:
                    arg = [Path(self.dir) / f for f in reversed(self.containers())]
                self.rec = self.cls(arg, op[1])
                self.partial_view = op[2] == "prefix"
                return "ok"
            if rec is None:
                return "na"
            if k == "w":
                with env.watchdog(env.step_timeout()):
                    h5ops.apply_op(rec, op[1:], self.n)
            elif k == "read":
                h5ops.observe(rec, ["/", "/" + op[0]])
            elif k == "create_patch":
                rec.create_patch()
            elif k == "commit_patch":
                rec.commit_patch()
            elif k == "discard_patch":
                rec.discard_patch()
            elif k == "close":
                rec.close(commit=op[1])
                self.rec = None
            elif k == "merge":
                self.nmerge += 1
                rec.merge_files(Path(self.mdir) / f"m{self.nmerge}")
            elif k == "merge_again":
                # merge onto a target that exists already (an earlier merge result, or the record itself)
                tgt = Path(self.mdir) / f"m{self.nmerge}" if self.nmerge else Path(self.path)
                rec.merge_files(tgt)
            else:
                raise AssertionError(op)
            return "ok"
        except env.StepTimeout:
            return "timeout"
        except AssertionError:
            raise
        except Exception:
            return "fail"

    def key(self):
        shapes = []
        for f in self.containers():
            p = os.path.join(self.dir, f)
            try:
                if self.rec is not None:
                    hf = [x for x in self.rec.__files__ if os.path.basename(x.filename) == f]
                    if hf:
                        shapes.append((f, ub_committed(p), ih5.raw_dump_file(hf[0])))
                        continue
                with h5py.File(p, "r") as hf:
                    shapes.append((f, ub_committed(p), ih5.raw_dump_file(hf)))
            except Exception as e:
                shapes.append((f, ub_committed(p), "unreadable"))
        st = None
        if self.rec is not None:
            # in-memory component (deduplication only): cached user blocks, in their dict order
            ub = getattr(self.rec, "_ublocks", None)
            ubk = tuple(os.path.basename(str(k)) for k in ub) if isinstance(ub, dict) else None
            # ... and every plain attribute the record object carries (paths made relative to the scratch directory)
            plain = tuple(
                sorted(
                    (k, repr(v).replace(self.dir, "<dir>"))
                    for k, v in vars(self.rec).items()
                    if isinstance(v, (str, int, bool, type(None), Path)) and not k.startswith("__")
                )
            )
            st = (self.rec.mode, bool(self.rec._has_writable), len(self.rec.__files__), ubk, plain)
        return hashlib.blake2b(repr((st, shapes)).encode(), digest_size=16).digest()

    def close(self):
        if self.rec is not None:
            ih5.discard(self.rec)
        env.rmtree(self.dir)


def _viol(kind, hist, op, kindv, detail):
    return {
        "sig": {"kind": kindv, "op": op[0], "cls": kind, "mode": op[1] if op[0] == "open" else None},
        "history": hist + [op],
        "config": {"kind": kind, "seed": env.seed()},
        "what": detail,
    }


def monitor(L, hist, op, view_before):
    """After op: byte identity + validity of the committed set. Returns violation or None."""
    r = L.scan()
    if r is not None and r[1] is not None:
        return _viol(L.kind, hist, op, r[0], r[1])
    grew = r is not None
    conts = [f for f in L.containers() if f in L.committed]
    # the committed chain must be a prefix of the container list
    if conts != L.containers()[: len(conts)]:
        return _viol(L.kind, hist, op, "committed-not-prefix", f"committed containers {conts} are not a prefix of {L.containers()}")
    if conts:
        if grew and not (L.rec is not None and L.partial_view):
            # a commit just happened: the committed set on its own must open and show the current view
            expected = ih5lib.dump(L.rec) if L.rec is not None else view_before
            L.snapshots.append((list(conts), expected))
        # re-open first and latest snapshot in place, read-only
        for names, expected in ([L.snapshots[0], L.snapshots[-1]] if len(L.snapshots) > 1 else L.snapshots):
            try:
                r2 = L.cls([Path(L.dir) / f for f in names], "r")
            except Exception as e:
                return _viol(L.kind, hist, op, "snapshot-does-not-open", f"file set {names} committed earlier no longer opens: {type(e).__name__}: {e}")
            try:
                if ih5lib.dump(r2) != expected:
                    return _viol(L.kind, hist, op, "snapshot-view-changed", f"file set {names} no longer shows the state at its commit")
            finally:
                r2.close()
        r3 = L.scan()
        if r3 is not None and r3[1] is not None:
            return _viol(L.kind, hist, op, r3[0] + "-by-reading", r3[1])
    return None


def run_history(kind, hist, check_all=True):
    """Replay a lifecycle history; returns (Life, violation|None, last status)."""
    L = Life(kind)
    status = "ok"
    for i, op in enumerate(hist):
        vb = ih5lib.dump(L.rec) if (L.rec is not None and op[0] in ("close", "commit_patch")) else None
        status = L.apply(op)
        if check_all or i == len(hist) - 1:
            v = monitor(L, hist[:i], op, vb)
            if v is not None:
                return L, v, status
        else:
            L.scan()
            r = None
            conts = [f for f in L.containers() if f in L.committed]
            if conts and (not L.snapshots or L.snapshots[-1][0] != conts) and not (L.rec is not None and L.partial_view):
                L.snapshots.append((list(conts), ih5lib.dump(L.rec) if L.rec is not None else vb))
    return L, None, status


def expand(task):
    kind, hist = task
    out = []
    ops = CFG["ops"]
    for op in ops:
        # enabledness is decided without running: open ops need a closed record and v.v.
        L, v, status = run_history(kind, hist + [op], check_all=False)
        try:
            if status == "na":
                continue
            if status == "timeout":
                out.append((op, "viol", None, _viol(kind, hist, op, "nonterm", "step did not terminate")))
                continue
            if v is not None:
                out.append((op, "viol", None, v))
                continue
            nb = len(L.containers())
            if nb > CFG["max_containers"]:
                continue
            out.append((op, status, L.key(), None))
        finally:
            L.close()
    return out


def check_baseless(task):
    """Committed patches whose base container was moved away (a supported base-less file set):
    no way of opening / creating by name except the explicitly truncating 'w' may touch them."""
    kind, npatch, mode, follow = task
    cls = ih5.record_class(kind)
    d = env.fresh_dir("bl")
    rec = None
    try:
        with cls(os.path.join(d, "rec"), "w") as r:
            r["/a"] = 1
            for i in range(npatch):
                r.commit_patch()
                r.create_patch()
                r[f"/b{i}"] = i
        os.rename(os.path.join(d, "rec.ih5"), os.path.join(d, "archived-base"))
        side = os.path.join(d, "rec.ih5mf.json")
        if os.path.exists(side):
            os.rename(side, os.path.join(d, "archived-base-manifest"))
        h0 = ih5lib.dir_hashes(d)
        sig = {"kind": "baseless-committed-touched", "op": "open", "cls": kind, "mode": mode}
        try:
            with env.watchdog(env.step_timeout()):
                rec = cls(os.path.join(d, "rec"), mode)
                if follow == "write-close":
                    try:
                        rec["/zz"] = 5
                    except Exception:
                        pass
                if follow != "none":
                    rec.close()
                    rec = None
        except env.StepTimeout:
            return {"sig": dict(sig, kind="nonterm"), "task": list(task), "config": {"seed": env.seed()}, "what": "did not terminate"}
        except Exception:
            pass
        h1 = ih5lib.dir_hashes(d)
        bad = [f for f in h0 if h1.get(f) != h0[f]]
        if bad:
            return {"sig": sig, "task": list(task), "config": {"seed": env.seed()}, "what": f"committed files {sorted(bad)} of a base-less file set were removed/changed by opening the name with mode {mode} ({follow})"}
        return None
    finally:
        if rec is not None:
            ih5.discard(rec)
        env.rmtree(d)


def init_key(kind):
    L = Life(kind)
    try:
        return L.key()
    finally:
        L.close()


def run(tier, seed):
    q = tier == "quick"
    ops = alphabet(seed)
    depth = {"ih5": 7 if q else 9, "mf": 6 if q else 8}
    cfg = {"ops": ops, "max_containers": 3 if q else 4}
    budget = 600 if q else 1500
    t0 = time.time()
    violations = []
    fam = {}
    samples = []
    capped = False
    with parallel.make_pool("mc.props.c02", {"cfg": cfg}) as pool:
        for kind in ("ih5", "mf"):
            seen = {pool.map("init_key", [kind])[0]}
            frontier = [[]]
            trans = 0
            outcomes = {}
            done = 0
            levels = []
            for lvl in range(1, depth[kind] + 1):
                if time.time() - t0 > budget * (0.6 if kind == "ih5" else 1.0):
                    capped = True
                    break
                res = pool.map("expand", [(kind, h) for h in frontier], chunk=2, item_deadline=180)
                nxt = []
                for hist, rl in zip(frontier, res):
                    if rl == parallel.HANG:
                        violations.append(_viol(kind, hist, ["?"], "hang", "expanding hung"))
                        continue
                    for op, status, key, v in rl:
                        trans += 1
                        outcomes[f"{op[0]}:{status}"] = outcomes.get(f"{op[0]}:{status}", 0) + 1
                        if v is not None:
                            violations.append(v)
                            continue
                        if key not in seen:
                            seen.add(key)
                            nxt.append(hist + [op])
                frontier = nxt
                done = lvl
                levels.append(len(seen))
            fam[kind] = {"states": len(seen), "transitions": trans, "completed_depth": done, "states_per_level": levels, "outcomes": outcomes}
            if frontier:
                samples.append({"cls": kind, "history": frontier[len(frontier) // 2]})
        bl_tasks = [(k, n, m, f) for k in ("ih5", "mf") for n in (1, 2) for m in ("r", "r+", "a", "x", "w-") for f in ("none", "close", "write-close")]
        for t, v in zip(bl_tasks, pool.map("check_baseless", bl_tasks, chunk=4, item_deadline=180)):
            if v == parallel.HANG:
                violations.append({"sig": {"kind": "hang", "op": "open", "cls": t[0], "mode": t[2]}, "task": list(t), "config": {"seed": seed}, "what": "hung"})
            elif v is not None:
                violations.append(v)
        fam["baseless"] = {"states": len(bl_tasks), "transitions": len(bl_tasks), "completed_depth": 1}
    cov = {
        "states": sum(f["states"] for f in fam.values()),
        "transitions": sum(f["transitions"] for f in fam.values()),
        "traces_validated_against_impl": sum(f["transitions"] for f in fam.values()),
        "families": fam,
        "alphabet": len(ops),
        "max_containers": cfg["max_containers"],
        "exhaustive": not capped,
        "samples": samples or [{"history": []}],
        "rule": "all histories over the lifecycle alphabet (8 write representatives, read, create/commit/discard patch, close(commit T/F), "
        "open r/r+/a by name and by reversed file list, by a proper prefix, with explicit manifest_file=, refused x/w-, merge, merge onto an existing target) up to the completed depth, deduplicated on (open state, mode, raw shape + committed flag "
        "of every container); monitor after every transition: sha256 of every file ever seen committed (own user-block reader) unchanged and present, "
        "committed chain is a prefix, first and latest committed file set reopen read-only in place and show the view at their commit",
    }
    return {
        "level": "model_checking",
        "coverage": cov,
        "violations": violations,
        "assumptions": ["a container counts as committed once its user block carries hdf5_hashsum (documented field)", "mode 'w' excluded (explicitly truncating)"],
    }


def replay(data):
    worker_init({"ops": alphabet(data["config"].get("seed", 0)), "max_containers": 9})
    if "task" in data:
        return check_baseless(tuple(data["task"]))
    L, v, status = run_history(data["config"]["kind"], [list(o) for o in data["history"]], check_all=True)
    L.close()
    return v
