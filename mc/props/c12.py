"""C12 - schema instances survive serialisation unchanged.

Exhaustive over a finite grammar of field types x boundary-value corpora x constant variants (generated
MetadataSchema classes), plus all installed schema plugins (minimal instance + every <=2-field deviation).
Oracle per valid instance o of schema S:

    S.parse_raw(bytes(o)) == o, S.parse_raw(o.json()) == o, S.parse_raw(o.yaml()) == o, S.parse_obj(o.json_dict()) == o
    re-serialising the parsed instance gives the same bytes / text / dict (set-free instances; otherwise the
    re-parsed instance is equal), every declared constant is in json_dict() with its value, input stating a
    different constant value (or none) parses to the same instance with the declared constants.

Input that cannot be constructed is counted (rejected / uninhabited), never judged.
"""
from __future__ import annotations

import mc.env as env  # noqa: F401

import copy
import json
import time
from typing import Optional

from mc import parallel
from mc import schema_grammar as G
from mc import schema_installed as I

MOD = "mc.props.c12"

# ------------------------------------------------------------------------------------------------ worker state

_E: G.Env = None  # type: ignore
_I: I.Installed = None  # type: ignore
_SCHEMAS = None
_MIN = None
_FSPECS = {}


def worker_init(seed=0, **_):
    global _E, _I, _SCHEMAS, _MIN
    _E = G.Env(seed)
    _I = I.Installed(_E)
    _SCHEMAS = None
    _MIN = I.minimal_instances(_E.n)
    _FSPECS.clear()


def _schemas():
    global _SCHEMAS
    if _SCHEMAS is None:
        _SCHEMAS = I.load_schemas()
    return _SCHEMAS


def _fspecs(name):
    if name not in _FSPECS:
        _FSPECS[name] = _I.field_specs(_schemas()[name][1])
    return _FSPECS[name]


# ------------------------------------------------------------------------------------------------ the oracle


def _contains_nan(v) -> bool:
    from pydantic import BaseModel

    if isinstance(v, float):
        return v != v
    if isinstance(v, BaseModel):
        return any(_contains_nan(x) for x in v.__dict__.values())
    if isinstance(v, dict):
        return any(_contains_nan(x) for x in v.values())
    if isinstance(v, (list, tuple, set, frozenset)):
        return any(_contains_nan(x) for x in v)
    m = getattr(v, "magnitude", None)
    if isinstance(m, float):
        return m != m
    return False


def _jnorm(v):
    return json.loads(json.dumps(v))


def _exc(ex):
    return f"{type(ex).__name__}: {str(ex)[:200]}"


_SER = {
    "bytes": lambda o: bytes(o),
    "json": lambda o: o.json(),
    "yaml": lambda o: o.yaml(),
    "obj": lambda o: o.json_dict(),
}


def _parse(S, form, raw):
    if form == "obj":
        return S.parse_obj(copy.deepcopy(raw))
    return S.parse_raw(raw)


def _nested_const_failures(value, dumped, path, out):
    """every model instance nested in `value` must show its class's constants in the dump"""
    from pydantic import BaseModel

    if isinstance(value, BaseModel):
        consts = getattr(type(value), "__constants__", None) or {}
        if not isinstance(dumped, dict):
            return
        for k, cv in consts.items():
            if cv is None:
                continue
            if k not in dumped or dumped[k] != _jnorm(cv):
                out.append(("const-present", "nested", f"nested constant {k!r} of {type(value).__name__} at {path}: {G.short(dumped.get(k, '<absent>'))} != {cv!r}"))
        for fname, fld in type(value).__fields__.items():
            if fname in consts:
                continue
            sub = value.__dict__.get(fname)
            if sub is not None and fld.alias in dumped:
                _nested_const_failures(sub, dumped[fld.alias], f"{path}.{fld.alias}", out)
    elif isinstance(value, (list, tuple)) and isinstance(dumped, list) and len(value) == len(dumped):
        for i, (x, y) in enumerate(zip(value, dumped)):
            _nested_const_failures(x, y, f"{path}[{i}]", out)


def judge(S, o, decl):
    """All oracle failures of one valid instance: list of (part, form, what). Empty = property holds."""
    fails = []
    nan = _contains_nan(o)
    setfree = not G.has_sets(o)
    ser = {}
    for form, fn in _SER.items():
        try:
            ser[form] = fn(o)
        except Exception as ex:
            fails.append(("serialise", form, f"{form} serialisation of a valid instance raises {_exc(ex)}"))
    for form, raw in ser.items():
        try:
            o2 = _parse(S, form, raw)
        except Exception as ex:
            fails.append(("parse", form, f"own {form} output {G.short(raw)} is not parsable: {_exc(ex)}"))
            continue
        if type(o2) is not type(o):
            fails.append(("roundtrip", form, f"parsed {form} is a {type(o2).__name__}, not a {type(o).__name__}"))
            continue
        if nan:
            continue  # NaN != NaN: equality is not defined for this instance (counted by the caller)
        if not (o2 == o):
            fails.append(("roundtrip", form, f"parse({form}) != original: {G.short(o2.__dict__)} vs {G.short(o.__dict__)}; {form}={G.short(raw)}"))
            continue
        try:
            raw2 = _SER[form](o2)
        except Exception as ex:
            fails.append(("second-roundtrip", form, f"re-serialising the parsed instance raises {_exc(ex)}"))
            continue
        if setfree:
            if raw2 != raw:
                fails.append(("second-roundtrip", form, f"second {form} differs from the first: {G.short(raw2)} vs {G.short(raw)}"))
        else:
            try:
                o3 = _parse(S, form, raw2)
                if not (o3 == o2):
                    fails.append(("second-roundtrip", form, f"second parse differs: {G.short(o3.__dict__)} vs {G.short(o2.__dict__)}"))
            except Exception as ex:
                fails.append(("second-roundtrip", form, f"second {form} not parsable: {_exc(ex)}"))
    d = ser.get("obj")
    if d is not None:
        sub = []
        _nested_const_failures(o, d, "$", sub)
        # top-level constants are judged against the DECLARATION below; keep only deeper ones from the walk
        fails += [f for f in sub if " at $." in f[2] or " at $[" in f[2]]
        if decl:
            for k, cv in decl.items():
                if k not in d or d[k] != _jnorm(cv):
                    fails.append(("const-present", "obj", f"declared constant {k!r}={cv!r} but json_dict() has {G.short(d.get(k, '<absent>'))}"))
            plain_ok = not any(p in ("parse", "roundtrip", "serialise") and f in ("obj", "json") for p, f, _ in fails)
            if not nan and plain_ok:
                variants = []
                d2 = copy.deepcopy(d)
                for k, cv in decl.items():
                    d2[k] = "other-" + str(cv) if not isinstance(cv, str) else cv + "-other"
                variants.append(("different", d2))
                variants.append(("absent", {k: v for k, v in copy.deepcopy(d).items() if k not in decl}))
                for vname, dv in variants:
                    for form, fn in (("obj", lambda x: S.parse_obj(copy.deepcopy(x))), ("json", lambda x: S.parse_raw(json.dumps(x)))):
                        try:
                            o4 = fn(dv)
                            d4 = o4.json_dict()
                        except Exception as ex:
                            fails.append(("const-ignored", form, f"input with {vname} constant values rejected: {_exc(ex)}"))
                            continue
                        bad = {k: d4.get(k, "<absent>") for k, cv in decl.items() if k not in d4 or d4[k] != _jnorm(cv)}
                        if bad or not (o4 == o):
                            fails.append(("const-ignored", form, f"input with {vname} constant values gives {G.short(bad or d4)} instead of the declared constants / original instance"))
    return fails, nan, ser


def _has_inner_nel(v) -> bool:
    """a string with U+0085 (NEL) between other characters somewhere in the value"""
    if isinstance(v, str):
        i = v.find("\x85")
        return 0 < i < len(v) - 1
    if isinstance(v, dict):
        return any(_has_inner_nel(k) or _has_inner_nel(x) for k, x in v.items())
    if isinstance(v, (list, tuple, set)):
        return any(_has_inner_nel(x) for x in v)
    return False


def reuse_failures(S, prev, o):
    """`prev` has been serialised in every form already; a copy of it carrying o's field values equals o and must
    serialise to something that parses back to o (no state of earlier serialisations may leak)."""
    fails = []
    try:
        oc = prev.copy(update=dict(o.__dict__))
    except Exception:
        return fails
    if not (oc == o):
        return fails
    for form, fn in _SER.items():
        try:
            back = _parse(S, form, fn(oc))
        except Exception as ex:
            fails.append(("reuse", form, f"{form} form of a copy(update=...) of an instance serialised before is not parsable: {_exc(ex)}"))
            continue
        if not (back == o):
            fails.append(("reuse", form, f"{form} form of prev.copy(update=<fields of o>) parses to {G.short(back.__dict__)} instead of {G.short(o.__dict__)} (prev was serialised before: {G.short(prev.__dict__)})"))
    return fails


# ------------------------------------------------------------------------------------------------ generated classes


def _alt_classes(t):
    """helper single-field classes, one per member of a Union type expression"""
    key = G.texpr_str(t)
    c = _alt_classes.cache.get(key)
    if c is None:
        c = [G.make_class(_E, {"v": G.hint(a, _E)}, prefix="Alt") for a in t[1:]]
        if len(_alt_classes.cache) > 2000:
            _alt_classes.cache.clear()
        _alt_classes.cache[key] = c
    return c


_alt_classes.cache = {}


def _alt_index(classes, v):
    for i, c in enumerate(classes):
        try:
            return i, c(v=v)
        except Exception:
            continue
    return None, None


def union_shift(t, value) -> bool:
    """True iff somewhere in the INPUT `value` a Union position holds something the union assigns to member k (left to
    right, as pydantic does), while the serialised form of the value validated by member k is claimed by a different
    member: left-to-right matching of an untagged union is not stable under serialisation."""
    k = t[0]
    if value is None:
        return False
    if k == "Optional":
        return union_shift(t[1], value)
    if k in ("List", "Set"):
        try:
            return any(union_shift(t[1], x) for x in value)
        except TypeError:
            return False
    if k == "Union":
        classes = _alt_classes(t)
        i, inst = _alt_index(classes, value)
        if inst is None:
            return False
        try:
            raw = inst.json_dict().get("v")
        except Exception:
            return False
        j, _ = _alt_index(classes, raw)
        if i != j:
            return True
        return union_shift(t[1 + i], value)
    return False


def _gen_class(item):
    e = _E
    t = G.parse_texpr(item["type"])
    fields = {e.n.f: G.hint(t, e)}
    defaults = None
    ts = [t]
    if item.get("type2"):
        t2 = G.parse_texpr(item["type2"])
        fields[e.n.f2] = G.hint(t2, e)
        ts.append(t2)
    if item.get("mode") == "dflt":
        nominal = G.corpus(t, e)[0]
        defaults = {e.n.f: G.materialize(nominal, e)}
    if item.get("mode") == "mand":
        # parent declares Optional[T]; the child makes the field mandatory with the decorator
        P = G.make_class(e, {e.n.f: Optional[G.hint(t, e)]}, consts=item.get("consts", "none"), prefix="GP")
        S = G.make_mandatory(e.n.f)(G.make_class(e, {}, base=P))
        return S, [("Optional", t)]
    S = G.make_class(e, fields, consts=item.get("consts", "none"), defaults=defaults)
    return S, ts


def _gen_values(item, ts):
    e = _E
    if item.get("mode") == "dflt":
        c = G.corpus(ts[0], e)
        vals = [G.OMIT, c[1] if len(c) > 1 else c[0]]
        if ts[0][0] != "Optional" and None not in c:
            vals.append(None)
        return [[v] for v in vals]
    cs = [G.field_corpus(t, e) for t in ts]
    if len(cs) == 1:
        return [[v] for v in cs[0]]
    return [[v, w] for v in cs[0] for w in cs[1]]


def _case_gen(S, ts, item, vals, decl):
    """-> (status, failures, nan, ser) for one (class, value(s)) case"""
    e = _E
    names = [e.n.f, e.n.f2]
    try:
        kw = G.build_kwargs({names[i]: v for i, v in enumerate(vals)}, e)
        o = S(**kw)
    except Exception as ex:
        return ("rejected", type(ex).__name__), [], False, None, None
    fails, nan, ser = judge(S, o, decl)
    return ("valid", None), fails, nan, ser, o


def _by_part(fails):
    """one failure per oracle part: the first failing form (order bytes, json, yaml, obj), the others listed in the text"""
    out, seen = [], {}
    for part, form, what in fails:
        if part in seen:
            seen[part].append(form)
        else:
            seen[part] = [form]
            out.append([part, form, what])
    return [(p, f, w + (f" (also for: {', '.join(seen[p][1:])})" if len(seen[p]) > 1 else "")) for p, f, w in out]


def _viol_gen(item, vals, part, form, what, cause, seed):
    inp = {"kind": "gen", "type": item["type"], "consts": item.get("consts", "none"), "mode": item.get("mode", "req"), "value": vals[0], "seed": seed}
    if item.get("type2"):
        inp["type2"] = item["type2"]
        inp["value2"] = vals[1]
    sig = {"part": part, "form": form, "cause": cause}
    if item.get("mode", "req") != "req":
        sig["mode"] = item["mode"]
        if vals[0] is None:
            sig["input"] = "explicit-None"
    return {"sig": sig, "input": inp, "what": what, "_type": item["type"] + ("+" + item["type2"] if item.get("type2") else "")}


def run_gen(item):
    """One generated class x its whole corpus."""
    e = _E
    res = {"evals": 0, "valid": 0, "rejected": 0, "rej_kinds": {}, "nan_skipped": 0, "distinct": 0, "viol": [], "nviol": 0,
           "sample": None, "class_error": None, "check_types": None, "uninhabited": False, "unconfirmed": []}  # fmt: skip
    try:
        S, ts = _gen_class(item)
    except Exception as ex:
        res["class_error"] = _exc(ex)
        return res
    try:
        from metador_core.plugins import schemas

        schemas.check_plugin("gen.cls", S)
        res["check_types"] = True
    except Exception:
        res["check_types"] = False
    decl = G.const_decl(item.get("consts", "none"), e)
    seen = set()
    classes_reported = set()
    prev = None
    for vals in _gen_values(item, ts):
        res["evals"] += 1
        (status, kind), fails, nan, ser, o = _case_gen(S, ts, item, vals, decl)
        if fails:
            # a reported case must fail again on a freshly generated class (what replay will do)
            S2, ts2 = _gen_class(item)
            (st2, _k2), fails2, _n2, _s2, _o2 = _case_gen(S2, ts2, item, vals, decl)
            if st2 != "valid" or not fails2:
                res["unconfirmed"].append({"item": item, "value": vals, "first": [list(f) for f in fails[:3]], "second_status": st2})
                fails = []
        if status == "rejected":
            res["rejected"] += 1
            res["rej_kinds"][kind] = res["rej_kinds"].get(kind, 0) + 1
            continue
        if not fails and not nan and prev is not None:
            # serialisation depends on the current field values only: an instance that was serialised before and
            # is then copied with the field values of this one must serialise like this one
            fails = reuse_failures(S, prev, o)
        if not nan:
            prev = o
        res["valid"] += 1
        if nan:
            res["nan_skipped"] += 1
        b = ser.get("bytes") if ser else None
        if b is not None and b not in seen:
            seen.add(b)
            try:
                nontrivial = any(k not in decl for k in json.loads(b))
            except Exception:
                nontrivial = True
            if nontrivial:
                res["distinct"] += 1
                if res["sample"] is None or (res["evals"] % 7 == 3 and len(b) < 200):
                    res["sample"] = {"type": item["type"], "consts": item.get("consts", "none"), "mode": item.get("mode", "req"), "value": vals, "bytes": b.decode("utf-8", "replace").strip()}
        if fails:
            res["nviol"] += len(fails)
            shift = None
            for part, form, what in _by_part(fails):
                cause = "other"
                if part in ("roundtrip", "second-roundtrip", "parse") and any("Union" in G.texpr_str(t) for t in ts):
                    if shift is None:
                        try:
                            shift = any(union_shift(t, G.materialize(v, e)) for t, v in zip(ts, vals) if not G.is_omit(v))
                        except Exception:
                            shift = False
                    if shift:
                        cause = "union-alternative-shift"
                if cause == "other" and form == "yaml" and part in ("roundtrip", "second-roundtrip") and _has_inner_nel(vals):
                    cause = "yaml-nel-folded"
                key = (part, form, cause)
                if key in classes_reported:
                    continue
                classes_reported.add(key)
                res["viol"].append(_viol_gen(item, vals, part, form, what, cause, e.n.seed))
    res["uninhabited"] = res["valid"] == 0
    return res


# ------------------------------------------------------------------------------------------------ installed schemas


def _inst_case(name, deviation):
    ver, S = _schemas()[name]
    try:
        kw = I.build_input(_MIN[name], deviation, _E)
        o = S(**kw)
    except Exception as ex:
        return ("rejected", type(ex).__name__), [], False, None
    fails, nan, ser = judge(S, o, dict(S.__constants__))
    return ("valid", None), fails, nan, ser


def _skip_none_default(S, key, v):
    """explicit None for a field with a declared non-None default is outside the property's quantifier"""
    if v is not None:
        return False
    for fld in S.__fields__.values():
        if fld.alias == key:
            return fld.default is not None or fld.default_factory is not None
    return False


def _pair_corpus(c, k):
    """pair deviations use the first |k| corpus values of a field plus omission and (k>0) explicit None; k=None: everything"""
    if k is None:
        return list(range(len(c)))
    idx = list(range(min(abs(k), len(c))))
    for extra in (None, G.OMIT) if k > 0 else (G.OMIT,):
        for n, v in enumerate(c):
            if (v is None and extra is None) or (extra is G.OMIT and G.is_omit(v)):
                if n not in idx:
                    idx.append(n)
    return idx


def run_installed(item, case_fn=None):
    """item = (schema name, i, j|None, k, bad_i, bad_j): all deviations of field i (and j) from the minimal instance.

    Pairs: value indices in bad_i / bad_j failed the oracle on their own (bound 1) and are not combined again."""
    name, i, j, k, bad_i, bad_j = item
    ver, S = _schemas()[name]
    specs = _fspecs(name)
    res = {"evals": 0, "valid": 0, "rejected": 0, "rej_kinds": {}, "nan_skipped": 0, "distinct": 0, "viol": [], "nviol": 0, "sample": None,
           "failed_idx": [], "subsumed": 0, "unconfirmed": []}  # fmt: skip
    if i is None:
        devs = [(None, [])]
    elif j is None:
        k1, c1 = specs[i]
        devs = [(n, [[k1, v]]) for n, v in enumerate(c1) if not _skip_none_default(S, k1, v)]
    else:
        k1, c1 = specs[i]
        k2, c2 = specs[j]
        devs = []
        for n in _pair_corpus(c1, k):
            for m in _pair_corpus(c2, k):
                if _skip_none_default(S, k1, c1[n]) or _skip_none_default(S, k2, c2[m]):
                    continue
                if n in bad_i or m in bad_j:
                    res["subsumed"] += 1
                    continue
                devs.append((None, [[k1, c1[n]], [k2, c2[m]]]))
    seen = set()
    classes_reported = set()
    for idx, dev in devs:
        res["evals"] += 1
        (status, kind), fails, nan, ser = (case_fn or _inst_case)(name, dev)
        if fails:
            (st2, _k2), fails2, _n2, _s2 = (case_fn or _inst_case)(name, dev)
            if st2 != "valid" or not fails2:
                res["unconfirmed"].append({"schema": name, "deviation": dev, "first": [list(f) for f in fails[:3]], "second_status": st2})
                fails = []
        if status == "rejected":
            res["rejected"] += 1
            res["rej_kinds"][kind] = res["rej_kinds"].get(kind, 0) + 1
            continue
        res["valid"] += 1
        if nan:
            res["nan_skipped"] += 1
        b = ser.get("bytes")
        if b is not None and b not in seen:
            seen.add(b)
            res["distinct"] += 1
            if res["sample"] is None and len(dev) and len(b) < 400:
                res["sample"] = {"schema": name, "deviation": dev, "bytes": b.decode("utf-8", "replace").strip()}
        if fails and idx is not None:
            res["failed_idx"].append(idx)
        res["nviol"] += len(fails)
        for part, form, what in _by_part(fails):
            cause = "yaml-nel-folded" if (form == "yaml" and part in ("roundtrip", "second-roundtrip") and _has_inner_nel(dev)) else "other"
            key = (part, form, cause)
            if key in classes_reported:
                continue
            classes_reported.add(key)
            res["viol"].append(
                {
                    "sig": {"part": part, "form": form, "cause": cause, "schema": name, "fields": sorted(k for k, _ in dev)},
                    "input": {"kind": "installed", "schema": name, "version": list(ver), "deviation": dev, "seed": _E.n.seed},
                    "what": what,
                }
            )
    return res


def probe_installed(name):
    """-> (number of fields incl. the extra key, minimal instance constructible?, error)"""
    try:
        ver, S = _schemas()[name]
        n = len(_fspecs(name))
    except Exception as ex:
        return (0, False, _exc(ex))
    try:
        S(**I.build_input(_MIN[name], [], _E))
        return (n, True, None)
    except Exception as ex:
        return (n, False, _exc(ex))


# ------------------------------------------------------------------------------------------------ driver

TRIPLE_ATOMS = ["Int", "Str", "PStr", "NonEmptyStr", "Duration", "PintQuantity", "Lit", "Nested", "LDIdRef", "PFloat"]


CORE_UNION_ATOMS = ["Int", "Str", "PStr", "NonEmptyStr", "Duration", "PintQuantity", "Lit", "Nested", "LDIdRef", "PFloat"]


def gen_items(tier):
    """quick: every type of depth<=2 (unions: constants none+ld), depth 3 over all atoms for the List/Set/Optional towers and
    over CORE_UNION_ATOMS for wrapped unions.  thorough: everything x all constant variants, + triples + two-field classes."""
    q = tier == "quick"
    items = []
    d2 = G.enumerate_types(2)
    for ts in d2:
        is_union = ts.startswith("Union[")
        for cv in G.CONST_VARIANTS:
            if q and is_union and cv in ("acf", "ldx"):
                continue
            items.append({"type": ts, "consts": cv, "mode": "req"})
        items.append({"type": ts, "consts": "none", "mode": "dflt"})
    for a in G.ATOMS:  # Optional[atom] in a parent, @make_mandatory in the child
        for cv in ("none", "ld"):
            items.append({"type": a, "consts": cv, "mode": "mand"})
    if q:
        d3 = [t for t in G.enumerate_types(3, union_atoms=CORE_UNION_ATOMS) if t not in set(G.enumerate_types(2, union_atoms=CORE_UNION_ATOMS))]
    else:
        d3 = [t for t in G.enumerate_types(3, triples_atoms=TRIPLE_ATOMS) if t not in set(d2)]
    for ts in d3:
        for cv in ("none",) if q else G.CONST_VARIANTS:
            items.append({"type": ts, "consts": cv, "mode": "req"})
    two = []
    if not q:
        for a in G.ATOMS:
            for b in G.ATOMS:
                two.append({"type": a, "type2": b, "consts": "none", "mode": "req"})
    return items, two, len(d2), len(d3)


PAIR_K = {"quick": -1, "thorough": 6}  # negative: without explicit None


def unversioned_constants(name):
    """Constants must also be enforced by the class object handed out WITHOUT a version (schemas.get(name), schemas[name])."""
    from metador_core.plugins import schemas

    out = []
    ver, S = _schemas()[name]
    consts = dict(getattr(S, "__constants__", {}) or {})
    if not consts:
        return out
    try:
        base = I.build_input(_MIN[name], [], _E)
        S(**base)
    except Exception:
        return out  # uninhabited (e.g. core.packerinfo): nothing to judge
    for how, get in (("get(name)", lambda: schemas.get(name)), ("[name]", lambda: schemas[name])):
        try:
            Su = get()
            alias = {(fld.alias or k): k for k, fld in S.__fields__.items()}
            foreign = {k: "zz-foreign-constant" for k in consts}
            o = Su.parse_obj(dict(I.build_input(_MIN[name], [], _E), **foreign))
            d = o.json_dict()
            bad = {k: d.get(k, "<absent>") for k, cv in consts.items() if d.get(k, "<absent>") != cv}
            o2 = Su.parse_raw(bytes(o))
            d2 = o2.json_dict()
            bad2 = {k: d2.get(k, "<absent>") for k, cv in consts.items() if d2.get(k, "<absent>") != cv}
        except Exception as ex:
            out.append({"sig": {"part": "const-ignored", "form": "unversioned", "schema": name, "cause": "raised"}, "input": {"kind": "unversioned", "schema": name, "seed": _E.n.seed}, "what": f"schemas.{how}: input stating other constant values raised {_exc(ex)}"})
            continue
        if bad or bad2:
            out.append({"sig": {"part": "const-ignored", "form": "unversioned", "schema": name, "cause": "kept-foreign"}, "input": {"kind": "unversioned", "schema": name, "seed": _E.n.seed}, "what": f"class from schemas.{how}: input stating other constant values dumps {bad or bad2} instead of the declared constants {consts}"})
    return out


def run_installed_family(pool, tier, names, seed, fname="run_installed"):
    """bound 0 and 1 with the full corpora first; bound 2 afterwards, not re-combining values that fail on their own"""
    probes = pool.map("probe_installed", names, chunk=1, item_deadline=300)
    info = {}
    singles = []
    for name, (nf, ok, err) in zip(names, probes):
        info[name] = {"fields": nf, "minimal_ok": ok, "error": err}
        if ok:
            singles.append((name, None, None, None, [], []))
            singles += [(name, i, None, None, [], []) for i in range(nf)]
    res1 = pool.map(fname, singles, chunk=2, item_deadline=600)
    bad = {}
    for it, r in zip(singles, res1):
        if r != parallel.HANG and it[1] is not None:
            bad[(it[0], it[1])] = sorted(r["failed_idx"])
    pairs = []
    k = PAIR_K[tier]
    for name in names:
        if info[name]["minimal_ok"]:
            nf = info[name]["fields"]
            pairs += [(name, i, j, k, bad.get((name, i), []), bad.get((name, j), [])) for i in range(nf) for j in range(i + 1, nf)]
    res2 = pool.map(fname, pairs, chunk=4 if tier == "quick" else 1, item_deadline=900)
    return singles + pairs, list(res1) + list(res2), info


UNCONFIRMED = []


def retry_inproc(fn, item, seed, init, secs=300):
    """an item that hung its worker is re-tried once in this process under a watchdog before it counts as a hang"""
    init(seed=seed)
    env.install_watchdog()
    try:
        with env.watchdog(secs):
            return fn(item)
    except env.StepTimeout:
        return parallel.HANG


def _merge(total, r):
    UNCONFIRMED.extend(r.get("unconfirmed", []))
    for k in ("evals", "valid", "rejected", "nan_skipped", "distinct", "nviol"):
        total[k] += r[k]
    for k, v in r["rej_kinds"].items():
        total["rej_kinds"][k] = total["rej_kinds"].get(k, 0) + v


def _finalise_sigs(viols):
    """Attribute failures of composite types to an atom that shows the same failure class on its own."""
    atom_fail = {}
    for v in viols:
        t = v.get("_type")
        if t in G.ATOMS:
            s = v["sig"]
            if "mode" not in s:
                atom_fail.setdefault((s["part"], s["form"], s["cause"]), []).append(t)
    out = []
    for v in viols:
        v = dict(v)
        t = v.pop("_type", None)
        if t is not None:
            s = dict(v["sig"])
            if s["cause"] in ("union-alternative-shift", "yaml-nel-folded") or s.get("input") == "explicit-None":
                pass  # one class per (part, form): the cause is the class
            elif t in G.ATOMS:
                s["type"] = t
            else:
                atoms = set()
                for part in t.split("+"):
                    atoms |= G.atoms_of(G.parse_texpr(part))
                culprit = [a for a in atom_fail.get((s["part"], s["form"], s["cause"]), []) if a in atoms]
                s["type"] = culprit[0] if culprit else t
            v["sig"] = s
        out.append(v)
    return out


def run(tier, seed):
    t0 = time.time()
    del UNCONFIRMED[:]
    total = {"evals": 0, "valid": 0, "rejected": 0, "nan_skipped": 0, "distinct": 0, "nviol": 0, "rej_kinds": {}}
    viols = []
    samples = []
    items, two, nd2, nd3 = gen_items(tier)
    names = sorted(I.minimal_instances(G.Names(seed)).keys())
    classes = 0
    uninhabited = []
    refused = []
    class_errors = []
    hangs = 0
    with parallel.make_pool(MOD, {"seed": seed}) as pool:
        # simplest first: atoms, then composite types (results come back in item order)
        # constants through the class objects handed out without a version
        for vl in pool.map("unversioned_constants", names, chunk=1, item_deadline=120):
            if vl != parallel.HANG:
                viols.extend(vl)
        order = sorted(range(len(items)), key=lambda k: (G.depth(G.parse_texpr(items[k]["type"])), k))
        items = [items[k] for k in order]
        res = pool.map("run_gen", items, chunk=6, item_deadline=120)
        gen_total = dict(total, rej_kinds={})
        for it, r in zip(items, res):
            if r == parallel.HANG:
                r = retry_inproc(run_gen, it, seed, worker_init)
            if r == parallel.HANG:
                hangs += 1
                viols.append({"sig": {"part": "hang", "form": "-", "cause": "other", "type": it["type"]}, "input": dict(it, kind="gen", value=None, seed=seed), "what": "case hung the worker"})
                continue
            if r["class_error"]:
                class_errors.append((it["type"], r["class_error"]))
                continue
            classes += 1
            _merge(gen_total, r)
            if r["uninhabited"] and it["mode"] == "req" and it["consts"] == "none":
                uninhabited.append(it["type"])
            if r["check_types"] is False and it["mode"] == "req" and it["consts"] == "none":
                refused.append(it["type"])
            viols += r["viol"]
            if r["sample"] and len(samples) < 400:
                samples.append(r["sample"])
        two_total = dict(total, rej_kinds={})
        if two:
            res = pool.map("run_gen", two, chunk=2, item_deadline=300)
            for it, r in zip(two, res):
                if r == parallel.HANG:
                    r = retry_inproc(run_gen, it, seed, worker_init)
                if r == parallel.HANG:
                    hangs += 1
                    continue
                if r["class_error"]:
                    class_errors.append((it["type"] + "+" + it["type2"], r["class_error"]))
                    continue
                classes += 1
                _merge(two_total, r)
                viols += r["viol"]
        t_gen = time.time() - t0
        inst_items, res, inst_info = run_installed_family(pool, tier, names, seed)
        inst_total = dict(total, rej_kinds={})
        inst_samples = []
        subsumed = 0
        for it, r in zip(inst_items, res):
            if r == parallel.HANG:
                r = retry_inproc(run_installed, it, seed, worker_init, secs=900)
            if r == parallel.HANG:
                hangs += 1
                viols.append({"sig": {"part": "hang", "form": "-", "cause": "other", "schema": it[0]}, "input": {"kind": "installed", "schema": it[0], "item": list(it), "seed": seed}, "what": "case hung the worker"})
                continue
            _merge(inst_total, r)
            subsumed += r["subsumed"]
            viols += r["viol"]
            if r["sample"] and len(inst_samples) < 60:
                inst_samples.append(r["sample"])
    for part in (gen_total, two_total, inst_total):
        _merge(total, part)
    viols = _finalise_sigs(viols)
    # order: atoms / short inputs first so that the first of each class is the minimal one
    viols.sort(key=lambda v: (len(str(v["input"].get("type", ""))), v["input"].get("consts", "none") != "none", len(json.dumps(v["input"], default=str))))
    pick = lambda xs, k: [xs[i] for i in range(0, len(xs), max(1, len(xs) // k))][:k]  # noqa: E731
    cov = {
        "evaluations": total["evals"],
        "distinct_nontrivial": total["distinct"],
        "valid_instances": total["valid"],
        "rejected_inputs": total["rejected"],
        "rejected_by_exception": total["rej_kinds"],
        "nan_instances_equality_skipped": total["nan_skipped"],
        "oracle_failures_total": total["nviol"],
        "generated_classes": classes,
        "types_depth_le2": nd2,
        "types_depth_3": nd3,
        "uninhabited_types": len(uninhabited),
        "uninhabited_examples": uninhabited[:12],
        "types_refused_by_check_types": len(refused),
        "refused_examples": refused[:8],
        "class_definition_errors": len(class_errors),
        "class_error_examples": class_errors[:5],
        "two_field_classes": len(two),
        "families": {"generated": gen_total, "two_field": two_total, "installed": inst_total},
        "installed": inst_info,
        "installed_deviation_bound": 2,
        "installed_pair_corpora": f"bound 1: full corpora; bound 2: first {abs(PAIR_K[tier])} corpus value(s) + omission{' + None' if PAIR_K[tier] > 0 else ''} per field",
        "installed_pairs_subsumed_by_failing_single": subsumed,
        "wall_s_generated": round(t_gen, 1),
        "hangs": hangs,
        "unconfirmed_failures": len(UNCONFIRMED),
        "unconfirmed_examples": UNCONFIRMED[:5],
        "samples": pick(samples, 12) + pick(inst_samples, 4),
        "exhaustive": hangs == 0 and not UNCONFIRMED,
        "rule": (
            "grammar T ::= atom | Optional[T] | List[T] | Set[T] | Union[T,T]; atoms = " + " ".join(G.ATOMS) + "; depth(atom)=1. "
            "All types of depth<=2 (every atom, Optional/List/Set of every atom, Union of every ORDERED pair of distinct atoms) x constants "
            "{none, @ld(context,type), add_const_fields(str,int,list,bool)} x {required field, field with default}; depth 3 = "
            "Optional/List/Set around List/Set/Optional/Union types"
            + (" with constants 'none'" if tier == "quick" else " x all constant variants, Union[a,b,c] over all ordered triples of " + " ".join(TRIPLE_ATOMS) + ", plus two-field classes for all ordered pairs of atoms x the product of both corpora")
            + ". Each class x the complete boundary corpus of its type (schema_grammar.atom_corpus; lists/sets: empty, every singleton, "
            "pair, duplicate; explicit None; omission); Optional[atom] parents with a @make_mandatory child. Installed: the 14 schema plugins, "
            "minimal instance + every deviation of 1 field with the full corpus of the declared field type (plus one undeclared extra key) + "
            f"every deviation of 2 fields over the first {abs(PAIR_K[tier])} corpus value(s) + omission{' + None' if PAIR_K[tier] > 0 else ''} of each field (a value that already fails "
            "alone is not combined again). A case is an (class, input) pair; it is "
            "non-trivial and distinct when the input is accepted and its JSON bytes (with >=1 non-constant key) were not seen before for that class. "
            "NaN-holding instances (NaN != NaN) are only checked for parsability. VERIF_SEED renames field names/letters/unicode/host only."
        ),
        "wall_s_internal": round(time.time() - t0, 1),
    }
    for u in UNCONFIRMED[:10]:
        print("UNCONFIRMED (failed once, passed when repeated on a fresh class; not reported):", json.dumps(u, default=str)[:1500])
    return {
        "level": "exploration",
        "coverage": cov,
        "violations": viols,
        "assumptions": [
            "equality is the library's own `==` on schema instances plus identity of the re-serialised form",
            "explicit None for a field with a declared non-None default is outside the quantifier and not generated",
            "inputs that cannot be constructed (any exception) are counted as rejected/uninhabited, never judged",
            "one pydantic 1.10 / pint 0.21 / isodate 0.6 / ruamel.yaml build",
        ],
    }


# ------------------------------------------------------------------------------------------------ replay


def replay(data):
    inp = data["input"]
    worker_init(seed=inp.get("seed", 0))
    want = data.get("sig", {})
    if inp["kind"] == "gen":
        if inp.get("value") is None and "type" in inp and want.get("part") == "hang":
            r = run_gen({k: inp[k] for k in ("type", "consts", "mode", "type2") if k in inp})
            return None if not r["viol"] else r["viol"][0]
        item = {k: inp[k] for k in ("type", "consts", "mode", "type2") if k in inp}
        S, ts = _gen_class(item)
        vals = [inp["value"]] + ([inp["value2"]] if "type2" in inp else [])
        (status, kind), fails, nan, ser, o = _case_gen(S, ts, item, vals, G.const_decl(item.get("consts", "none"), _E))
        if status != "valid" or not fails:
            return None
        for part, form, what in fails:
            if part == want.get("part") and form == want.get("form"):
                return {"sig": want, "input": inp, "what": what}
        part, form, what = fails[0]
        return {"sig": dict(want, part=part, form=form), "input": inp, "what": what}
    if inp["kind"] == "unversioned":
        vl = unversioned_constants(inp["schema"])
        return vl[0] if vl else None
    if inp["kind"] == "installed":
        if "deviation" not in inp:
            r = run_installed(tuple(inp["item"]))
            return r["viol"][0] if r["viol"] else None
        (status, kind), fails, nan, ser = _inst_case(inp["schema"], inp["deviation"])
        if status != "valid" or not fails:
            return None
        for part, form, what in fails:
            if part == want.get("part") and form == want.get("form"):
                return {"sig": want, "input": inp, "what": what}
        part, form, what = fails[0]
        return {"sig": dict(want, part=part, form=form), "input": inp, "what": what}
    raise ValueError(inp["kind"])
