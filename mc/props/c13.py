"""C13 - every child-schema instance is a valid parent-schema instance.

Part A: the C12 instance sets (generated 3-level class chains over the type grammar, @make_mandatory children, all
        installed schemas with <=2-field deviations): every valid instance o of a schema, serialised with bytes(o),
        must be accepted by A.parse_raw for every ancestor A (class chain, and schemas.parent_path for plugins).
Part B: soundness of the plugin-time override check, exhaustive over ordered type pairs (TP, TC) of the grammar
        (no date/time): class P: f: TP; class C(P): f: TC; the library's check (PGSchema.check_plugin -> check_types)
        either refuses C, or - if it accepts - no corpus value v of TP u TC may exist with C(f=v) valid and
        P.parse_raw(bytes(C(f=v))) failing. A refused pair must be accepted once @override("f") is declared.
        Extra policies (allow/ignore/forbid)^2 and every way of adding a field below a forbidding parent are
        enumerated the same way.
"""
from __future__ import annotations

import mc.env as env  # noqa: F401

import gc
import json
import time
from typing import Optional

from mc import parallel
from mc import schema_grammar as G
from mc import schema_installed as I
from mc.props import c12

MOD = "mc.props.c13"

_E: G.Env = None  # type: ignore
_ANC = {}
_N = [0]


def worker_init(seed=0, **_):
    global _E
    c12.worker_init(seed=seed)
    _E = c12._E
    _ANC.clear()


probe_installed = c12.probe_installed


def _exc(ex):
    return f"{type(ex).__name__}: {str(ex)[:200]}"


def _housekeeping():
    """generated classes are kept alive by lru caches of the library; drop them now and then (memory only)"""
    _N[0] += 1
    if _N[0] % 400:
        return
    try:
        from metador_core.schema import core

        for obj in (getattr(core.SchemaMagic.__dict__.get("_typehints"), "fget", None), getattr(core.SchemaMagic.__dict__.get("_base_typehints"), "fget", None), getattr(core, "make_schema_inspector", None)):
            if hasattr(obj, "cache_clear"):
                obj.cache_clear()
    except Exception:
        pass
    c12._alt_classes.cache.clear()
    gc.collect()


def check_ok(cls) -> bool:
    """the library's plugin-time check, as the schema plugin group runs it when a plugin is loaded"""
    from metador_core.plugins import schemas

    try:
        schemas.check_plugin("gen.cls", cls)
        return True
    except Exception:
        return False


# ------------------------------------------------------------------------------------------------ Part A (generated)


def _chain(item):
    """-> (C, [(label, ancestor)], type of the value field)"""
    e = _E
    f, g = e.n.f, e.n.f2
    t = G.parse_texpr(item["type"])
    consts = item.get("consts", "none")
    if item["shape"] == "mand":
        GP = G.make_class(e, {f: Optional[G.hint(t, e)]}, consts=consts, prefix="AG")
        P = G.make_mandatory(f)(G.make_class(e, {g: Optional[G.mt.Int]}, base=GP, prefix="AP"))
    else:
        GP = G.make_class(e, {f: G.hint(t, e)}, consts=consts, prefix="AG")
        P = G.make_class(e, {g: Optional[G.mt.Int]}, base=GP, prefix="AP")
    C = G.make_class(e, {"h_" + g: Optional[G.mt.NonEmptyStr]}, base=P, prefix="AC")
    if consts == "ld":
        C = G.ld(type="Child" + e.n.a)(C)
    elif consts == "acf":
        C = G.add_const_fields({"cstr": "child" + e.n.a}, override=True)(C)
    return C, [("parent", P), ("grandparent", GP)], t


def _chain_inputs(item, t):
    e = _E
    f, g = e.n.f, e.n.f2
    tt = ("Optional", t) if item["shape"] == "mand" else t
    for v in G.field_corpus(tt, e):
        yield {f: v}
        yield {f: v, g: 1, "h_" + g: f" {e.n.a} "}


def _ancestor_failures(o, ancestors):
    try:
        b = bytes(o)
    except Exception:
        return None, []  # serialisation itself is C12's subject
    fails = []
    for label, A in ancestors:
        try:
            A.parse_raw(b)
        except Exception as ex:
            fails.append(("ancestor-parse", label, f"{label} {A.__name__} rejects the child's bytes {G.short(b)}: {_exc(ex)}"))
    return b, fails


def run_chain(item):
    e = _E
    _housekeeping()
    res = {"evals": 0, "valid": 0, "rejected": 0, "unserialisable": 0, "distinct": 0, "viol": [], "nviol": 0, "sample": None, "class_error": None, "programs": 0}
    try:
        C, ancestors, t = _chain(item)
    except Exception as ex:
        res["class_error"] = _exc(ex)
        return res
    res["programs"] = 3
    seen = set()
    reported = set()
    for assign in _chain_inputs(item, t):
        res["evals"] += 1
        try:
            o = C(**G.build_kwargs(assign, e))
        except Exception:
            res["rejected"] += 1
            continue
        res["valid"] += 1
        b, fails = _ancestor_failures(o, ancestors)
        if b is None:
            res["unserialisable"] += 1
            continue
        if b not in seen:
            seen.add(b)
            res["distinct"] += 1
            if res["sample"] is None:
                res["sample"] = {"chain": item, "input": assign, "bytes": b.decode("utf-8", "replace").strip()}
        res["nviol"] += len(fails)
        for part, label, what in fails:
            if label in reported:
                continue
            reported.add(label)
            sig = {"part": part, "ancestor": label, "shape": item["shape"]}
            if assign.get(e.n.f, 0) is None:
                sig["input"] = "explicit-None"  # one class whatever the field type
            else:
                sig.update(type=item["type"], consts=item.get("consts", "none"))
            res["viol"].append({"sig": sig, "input": {"kind": "chain", "item": item, "assign": assign, "seed": e.n.seed}, "what": what})
    return res


# ------------------------------------------------------------------------------------------------ Part A (installed)


def _anc(name):
    if name not in _ANC:
        ver, S = c12._schemas()[name]
        _ANC[name] = I.ancestors_of(name, ver)
    return _ANC[name]


def _anc_case(name, deviation):
    ver, S = c12._schemas()[name]
    try:
        o = S(**I.build_input(c12._MIN[name], deviation, _E))
    except Exception as ex:
        return ("rejected", type(ex).__name__), [], False, None
    b, fails = _ancestor_failures(o, _anc(name))
    if b is None:
        return ("valid", None), [], False, {}
    return ("valid", None), fails, False, {"bytes": b}


def run_installed(item):
    return c12.run_installed(item, case_fn=_anc_case)


def ancestor_table(name):
    try:
        return [label for label, _ in _anc(name)]
    except Exception as ex:
        return ["error: " + _exc(ex)]


# ------------------------------------------------------------------------------------------------ Part B (type pairs)


def _pair_classes(item):
    """-> P, make_child(with_override) ; raises if the PARENT cannot be defined"""
    e = _E
    f = e.n.f
    tp, tc = G.parse_texpr(item["tp"]), G.parse_texpr(item["tc"])
    variant = item.get("variant", "single")
    Int = G.mt.Int
    if variant == "multi":
        # further fields overridden with the identical type, before and after `f` in declaration order
        pf = {"a0": Int, f: G.hint(tp, e), "z9": Int}
        cf = {"a0": Int, f: G.hint(tc, e), "z9": Int}
    elif variant == "mm":
        # parent declares Optional[TP]; an intermediate class makes it mandatory; the child re-declares TC
        import typing

        pf = {f: typing.Optional[G.hint(tp, e)]}
        cf = {f: G.hint(tc, e)}
    elif variant == "nest":
        # the overridden field holds a nested schema; the child's nested class (a subclass) widens an inner field
        S1 = G.make_class(e, {"g": G.hint(tp, e)}, prefix="BN")
        pf = {f: S1}
        cf = None  # built per child (the declaration belongs to the nested subclass)
    elif variant == "decl":
        # another field (sorting before `f`) is overridden WITH an explicit declaration; `f` is not declared
        pf = {"A0": Int, f: G.hint(tp, e)}
        cf = {"A0": Int, f: G.hint(tc, e)}
    else:
        pf = {f: G.hint(tp, e)}
        cf = {f: G.hint(tc, e)}
    P = G.make_class(e, pf, prefix="BP")

    if variant == "mm":
        from metador_core.schema.decorators import make_mandatory

        P0 = P
        P = make_mandatory(f)(G.make_class(e, {}, base=P0, prefix="BMM"))  # the class whose instances the child must stay within

    def child(with_override=False):
        base = P
        if variant == "via":
            base = G.make_class(e, {}, base=P, prefix="BM")
        if variant == "nest":
            S2 = G.make_class(e, {"g": G.hint(tc, e)}, base=S1, prefix="BN")
            if with_override:
                S2 = G.override("g")(S2)
            return G.make_class(e, {f: S2}, base=base, prefix="BC")
        C = G.make_class(e, cf, base=base, prefix="BC")
        if variant == "decl":
            C = G.override("A0", f)(C) if with_override else G.override("A0")(C)
        elif with_override:
            C = G.override(f)(C)
        if variant == "mid":
            # the override sits in an intermediate class; the class that is checked is a leaf that does not touch `f`
            C = G.make_class(e, {}, base=C, prefix="BL")
        return C

    return P, child, tp, tc


def _pair_inputs(item, tp, tc):
    e = _E
    f = e.n.f
    vals = G._dedupe(G.field_corpus(tp, e) + G.field_corpus(tc, e))
    for v in vals:
        a = {f: v}
        if item.get("variant") == "multi":
            a.update({"a0": 0, "z9": 0})
        if item.get("variant") == "decl":
            a.update({"A0": 0})
        if item.get("variant") == "nest":
            a = {f: {"g": v}}
        yield a
    if item.get("variant") == "mm":
        yield {}  # the field left out


def _witness(P, C, assign):
    """-> None | (what) for ONE input: child accepts, parent rejects the child's serialisation"""
    try:
        o = C(**G.build_kwargs(assign, _E))
    except Exception:
        return "rejected", None
    try:
        b = bytes(o)
    except Exception:
        return "unserialisable", None
    try:
        P.parse_raw(b)
    except Exception as ex:
        from pydantic import ValidationError

        cause = {"cause": "parent-validation-error"} if isinstance(ex, ValidationError) else {"cause": "parent-crash", "exc": type(ex).__name__}
        return "witness", (cause, f"child accepts {G.short(assign, 120)} and serialises it as {G.short(b, 120)}, which the parent rejects: {_exc(ex)}")
    return "ok", None


def run_pair(item):
    e = _E
    _housekeeping()
    res = {"outcome": None, "programs": 0, "evals": 0, "valid": 0, "viol": [], "override_checked": False, "sample": None}
    try:
        P, child, tp, tc = _pair_classes(item)
    except Exception as ex:
        res["outcome"] = "parent-undefinable"
        return res
    res["programs"] += 1
    if not check_ok(P):
        res["outcome"] = "parent-refused"  # TP itself is not a permitted field type: no pair to judge
        return res
    try:
        C = child()
    except Exception:
        res["outcome"] = "refused-at-definition"
        return res
    res["programs"] += 1
    accepted = check_ok(C)
    sig_extra = {} if item.get("variant", "single") == "single" else {"variant": item["variant"]}
    if not accepted:
        res["outcome"] = "refused"
        # a refusal must be stable: checking the same class again (e.g. a second attempt to load the plugin) must refuse again
        if check_ok(C):
            res["viol"].append(
                {
                    "sig": dict({"part": "refused-only-once"}, **sig_extra),
                    "input": {"kind": "pair", "item": item, "assign": None, "seed": e.n.seed},
                    "what": f"class C(P): f: {item['tc']} below P: f: {item['tp']} is refused by the plugin check the first time and ACCEPTED when checked again",
                }
            )
            return res
        # with the explicit declaration the check has to pass (if TC on its own is a permitted field type)
        try:
            Q = G.make_class(e, {e.n.f: G.hint(tc, e)}, prefix="BQ")
            if check_ok(Q):
                C2 = child(with_override=True)
                res["programs"] += 2
                res["override_checked"] = True
                if not check_ok(C2):
                    res["viol"].append(
                        {
                            "sig": dict({"part": "override-not-honoured", "tp": item["tp"], "tc": item["tc"]}, **sig_extra),
                            "input": {"kind": "pair", "item": item, "assign": None, "seed": e.n.seed},
                            "what": f"class C(P): f: {item['tc']} below P: f: {item['tp']} is still refused with @override declared",
                        }
                    )
        except Exception as ex:
            res["override_error"] = _exc(ex)
        return res
    res["outcome"] = "accepted"
    for assign in _pair_inputs(item, tp, tc):
        res["evals"] += 1
        st, what = _witness(P, C, assign)
        if st in ("ok", "witness"):
            res["valid"] += 1
            if res["sample"] is None and item["tp"] != item["tc"]:
                res["sample"] = {"pair": item, "input": assign}
        if st == "witness":
            cause, text = what
            res["viol"].append(
                {
                    # a parent validator that crashes is one class per exception kind; a plain rejection is one per pair
                    "sig": dict({"part": "override-soundness"}, **({} if cause["cause"] == "parent-crash" else {"tp": item["tp"], "tc": item["tc"]}), **cause, **sig_extra),
                    "input": {"kind": "pair", "item": item, "assign": assign, "seed": e.n.seed},
                    "what": f"check accepts f: {item['tc']} overriding f: {item['tp']} without @override, but " + text,
                }
            )
            break
    return res


# ------------------------------------------------------------------------------------------------ Part B (extra policy / new fields)

EXTRA_P = ("allow", "ignore", "forbid")
EXTRA_C = ("inherit", "allow", "ignore", "forbid")
NEW_FIELD = ("none", "ann_opt", "ann_req", "acf", "ld", "ld_override", "bare_default")


def extra_items():
    out = []
    for chain in (1, 2):
        for pe in EXTRA_P:
            for ce in EXTRA_C:
                for new in NEW_FIELD:
                    for pconst in ("none", "ld"):
                        if new == "ld_override" and pconst != "ld":
                            continue
                        out.append({"pe": pe, "ce": ce, "new": new, "chain": chain, "pconst": pconst})
    return out


def _extra_classes(item):
    e = _E
    f, g = e.n.f, e.n.f2
    Int = G.mt.Int
    top = G.make_class(e, {f: Int}, extra=item["pe"], consts=item["pconst"], prefix="XP")
    ancestors = [("parent", top)]
    base = top
    if item["chain"] == 2:
        base = G.make_class(e, {}, base=top, prefix="XM")
        ancestors = [("parent", base), ("grandparent", top)]
    fields = {}
    if item["new"] == "ann_opt":
        fields[g] = Optional[Int]
    elif item["new"] == "ann_req":
        fields[g] = Int
    defaults = {g: 7} if item["new"] == "bare_default" else None  # new field by plain assignment, no annotation
    C = G.make_class(e, fields, base=base, defaults=defaults, extra=None if item["ce"] == "inherit" else item["ce"], prefix="XC")
    if item["new"] == "acf":
        C = G.add_const_fields({"ckind": "k" + e.n.a})(C)
    elif item["new"] == "ld":
        C = G.ld(kind="K" + e.n.a)(C)  # a constant the parent does not have
    elif item["new"] == "ld_override":
        C = G.ld(type="Child" + e.n.a)(C)  # overrides the parent's @type constant
    return C, ancestors


def _extra_inputs(item):
    e = _E
    f, g = e.n.f, e.n.f2
    gvals = [G.OMIT] if item["new"] not in ("ann_opt", "ann_req", "bare_default") else [G.OMIT, 1, None]
    for v in (0, G.OMIT):
        for gv in gvals:
            for x in (G.OMIT, 1, e.n.a, {e.n.a: [1]}):
                yield {f: v, g: gv, I.EXTRA_KEY: x}


def run_extra(item):
    e = _E
    res = {"outcome": None, "programs": 0, "evals": 0, "valid": 0, "viol": [], "sample": None}
    try:
        C, ancestors = _extra_classes(item)
    except Exception:
        res["outcome"] = "refused-at-definition"
        return res
    res["programs"] = 1 + len(ancestors)
    if not check_ok(C):
        res["outcome"] = "refused"
        return res
    res["outcome"] = "accepted"
    for assign in _extra_inputs(item):
        res["evals"] += 1
        try:
            o = C(**G.build_kwargs(assign, e))
        except Exception:
            continue
        b, fails = _ancestor_failures(o, ancestors)
        if b is None:
            continue
        res["valid"] += 1
        if res["sample"] is None:
            res["sample"] = {"program": item, "input": assign, "bytes": b.decode("utf-8", "replace").strip()}
        if fails:
            part, label, what = fails[0]
            res["viol"].append(
                {
                    "sig": {"part": "extra-policy", "parent_extra": item["pe"], "child_extra": item["ce"], "new_field": item["new"], "parent_consts": item["pconst"]},
                    "input": {"kind": "extra", "item": item, "assign": assign, "seed": e.n.seed},
                    "what": f"parent extra={item['pe']}, child extra={item['ce']}, new field via {item['new']} (chain {item['chain']}) passes the plugin check, but " + what,
                }
            )
            break
    return res


# ------------------------------------------------------------------------------------------------ same-name types


def _code_type(n):
    """Type factory: every product has the same module-qualified name (and str()), but accepts strings up to n chars."""

    class Code(str):
        maxlen = n

        @classmethod
        def __get_validators__(cls):
            yield cls.validate

        @classmethod
        def validate(cls, v):
            if not isinstance(v, str) or len(v) > cls.maxlen:
                raise ValueError(f"at most {cls.maxlen} characters")
            return cls(v)

        @classmethod
        def __modify_schema__(cls, field_schema):
            field_schema.update(type="string", maxLength=cls.maxlen)

    return Code


SAMENAME_SHAPES = ("T", "Optional[T]", "List[T]", "Optional[List[T]]", "Dict[str,T]")


def run_samename(item):
    """Parent field of a factory type, child overrides it (undeclared) with a WIDER product of the same factory."""
    import typing

    e = _E
    _housekeeping()
    f = e.n.f
    shape, np_, nc = item["shape"], item["np"], item["nc"]
    res = {"outcome": None, "programs": 2, "evals": 0, "valid": 0, "viol": [], "sample": None}

    def hint(T):
        return {"T": T, "Optional[T]": typing.Optional[T], "List[T]": typing.List[T], "Optional[List[T]]": typing.Optional[typing.List[T]], "Dict[str,T]": typing.Dict[str, T]}[shape]

    def wrap(v):
        return {"T": v, "Optional[T]": v, "List[T]": [v], "Optional[List[T]]": [v], "Dict[str,T]": {"k": v}}[shape]

    try:
        P = G.make_class(e, {f: hint(_code_type(np_))}, prefix="SP")
        if not check_ok(P):
            res["outcome"] = "parent-refused"
            return res
        C = G.make_class(e, {f: hint(_code_type(nc))}, base=P, prefix="SC")
    except Exception:
        res["outcome"] = "refused-at-definition"
        return res
    if not check_ok(C):
        res["outcome"] = "refused"
        return res
    res["outcome"] = "accepted"
    for L in sorted({0, 1, np_, np_ + 1, nc, nc + 1}):
        res["evals"] += 1
        st, w = _witness(P, C, {f: wrap("A" * L)})
        if st in ("ok", "witness"):
            res["valid"] += 1
        if st == "witness":
            cause, what = w
            res["viol"].append(
                {
                    "sig": dict({"part": "override-soundness", "variant": "same-name-type", "shape": shape}, **cause),
                    "input": {"kind": "samename", "item": item, "seed": e.n.seed},
                    "what": f"field type {shape} with T = product of a type factory (all products are called {_code_type(1).__module__}.{_code_type(1).__qualname__}); parent up to {np_} chars, child up to {nc} chars, no override declared, plugin check passes, but " + what,
                }
            )
            break
    return res


def run_constraint(item):
    """Parent field Annotated[int, Field(ge=a)], child overrides it (undeclared) with Annotated[int, Field(ge=b)]."""
    import typing

    from pydantic import Field
    from typing_extensions import Annotated

    e = _E
    _housekeeping()
    f = e.n.f
    shape, a, b = item["shape"], item["gp"], item["gc"]
    res = {"outcome": None, "programs": 2, "evals": 0, "valid": 0, "viol": [], "sample": None}

    def hint(lo):
        T = Annotated[int, Field(ge=lo)]
        return {"T": T, "Optional[T]": typing.Optional[T]}[shape]

    try:
        P = G.make_class(e, {f: hint(a)}, prefix="KP")
        if not check_ok(P):
            res["outcome"] = "parent-refused"
            return res
        C = G.make_class(e, {f: hint(b)}, base=P, prefix="KC")
    except Exception:
        res["outcome"] = "refused-at-definition"
        return res
    if not check_ok(C):
        res["outcome"] = "refused"
        return res
    res["outcome"] = "accepted"
    for v in sorted({a - 1, a, b - 1, b, max(a, b) + 1}):
        res["evals"] += 1
        st, w = _witness(P, C, {f: v})
        if st in ("ok", "witness"):
            res["valid"] += 1
        if st == "witness":
            cause, what = w
            res["viol"].append(
                {
                    "sig": dict({"part": "override-soundness", "variant": "field-constraint"}, **cause),
                    "input": {"kind": "constraint", "item": item, "seed": e.n.seed},
                    "what": f"parent field Annotated[int, Field(ge={a})] ({shape}), child re-declares it as Annotated[int, Field(ge={b})] without @override, plugin check passes, but " + what,
                }
            )
            break
    return res


# ------------------------------------------------------------------------------------------------ driver

CORE = [a for a in c12.CORE_UNION_ATOMS if a not in G.DATE_ATOMS]


def pair_types(tier):
    atoms = [a for a in G.ATOMS if a not in G.DATE_ATOMS]
    if tier == "quick":
        return G.enumerate_types(2, atoms=atoms, union_atoms=CORE), atoms
    return G.enumerate_types(2, atoms=atoms), atoms


def run(tier, seed):
    t0 = time.time()
    q = tier == "quick"
    viols = []
    samples = []
    cov = {}
    hangs = 0
    names = sorted(I.minimal_instances(G.Names(seed)).keys())
    with parallel.make_pool(MOD, {"seed": seed}) as pool:
        # ---------------- Part B: type pairs
        types, atoms = pair_types(tier)
        items = [{"tp": a, "tc": b, "variant": "single"} for a in types for b in types]
        sub = atoms if q else G.enumerate_types(2, atoms=atoms, union_atoms=CORE)
        for variant in ("multi", "via", "mid", "decl", "nest"):
            items += [{"tp": a, "tc": b, "variant": variant} for a in sub for b in sub]
        items += [{"tp": a, "tc": tc, "variant": "mm"} for a in atoms for tc in (a, f"Optional[{a}]")]
        res = pool.map("run_pair", items, chunk=64, item_deadline=60)
        outcomes = {}
        programs = evals = valid = 0
        accepted_nontrivial = refused_override = 0
        accepted_pairs = []
        for it, r in zip(items, res):
            if r == parallel.HANG:
                r = c12.retry_inproc(run_pair, it, seed, worker_init)
            if r == parallel.HANG:
                hangs += 1
                viols.append({"sig": {"part": "hang", "tp": it["tp"], "tc": it["tc"]}, "input": {"kind": "pair", "item": it, "assign": None, "seed": seed}, "what": "pair hung the worker"})
                continue
            outcomes[r["outcome"]] = outcomes.get(r["outcome"], 0) + 1
            programs += r["programs"]
            evals += r["evals"]
            valid += r["valid"]
            viols += r["viol"]
            if r["outcome"] == "accepted" and it["tp"] != it["tc"]:
                if r["valid"]:
                    accepted_nontrivial += 1
                if it["variant"] == "single":
                    accepted_pairs.append(f"{it['tc']} <: {it['tp']}")
                if r["sample"] and len(samples) < 300:
                    samples.append(r["sample"])
            if r["override_checked"]:
                refused_override += 1
        cov["pairs"] = {
            "types": len(types), "ordered_pairs": len(types) ** 2, "pair_programs_incl_variants": len(items), "outcomes": outcomes,
            "accepted_with_different_types": len(accepted_pairs), "accepted_examples": accepted_pairs[:: max(1, len(accepted_pairs) // 25)][:25],
            "witness_search_inputs": evals, "witness_search_valid_child_instances": valid, "refused_pairs_rechecked_with_override": refused_override,
            "wall_s": round(time.time() - t0, 1),
        }  # fmt: skip
        # ---------------- Part B: extra policies
        t1 = time.time()
        xitems = extra_items()
        res = pool.map("run_extra", xitems, chunk=4, item_deadline=60)
        xo = {}
        xprog = xevals = xvalid = 0
        for it, r in zip(xitems, res):
            if r == parallel.HANG:
                r = c12.retry_inproc(run_extra, it, seed, worker_init)
            if r == parallel.HANG:
                hangs += 1
                continue
            xo[r["outcome"]] = xo.get(r["outcome"], 0) + 1
            xprog += r["programs"]
            xevals += r["evals"]
            xvalid += r["valid"]
            viols += r["viol"]
            if r["sample"] and len(samples) < 320 and it["new"] != "none":
                samples.append(r["sample"])
        cov["extra_policy"] = {"programs": len(xitems), "outcomes": xo, "inputs": xevals, "valid_child_instances": xvalid, "wall_s": round(time.time() - t1, 1)}
        # ---------------- Part B: products of one type factory (same name, different acceptance)
        sitems = [{"shape": sh, "np": a, "nc": b} for sh in SAMENAME_SHAPES for a in (1, 3) for b in (1, 3, 6)]
        so = {}
        for it, r in zip(sitems, pool.map("run_samename", sitems, chunk=4, item_deadline=60)):
            if r == parallel.HANG:
                hangs += 1
                continue
            so[r["outcome"]] = so.get(r["outcome"], 0) + 1
            viols += r["viol"]
        cov["same_name_types"] = {"programs": len(sitems), "outcomes": so}
        # ---------------- Part B: numeric bounds given through Annotated[.., Field(..)]
        kitems = [{"shape": sh, "gp": a, "gc": b} for sh in ("T", "Optional[T]") for a in (0, 5) for b in (-5, 0, 5, 7)]
        ko = {}
        for it, r in zip(kitems, pool.map("run_constraint", kitems, chunk=4, item_deadline=60)):
            if r == parallel.HANG:
                hangs += 1
                continue
            ko[r["outcome"]] = ko.get(r["outcome"], 0) + 1
            viols += r["viol"]
        cov["field_constraints"] = {"programs": len(kitems), "outcomes": ko}
        # ---------------- Part A: generated chains
        t1 = time.time()
        d2 = G.enumerate_types(2)
        citems = []
        for ts in d2:
            for cv in ("none", "ld") if q else G.CONST_VARIANTS:
                citems.append({"type": ts, "consts": cv, "shape": "chain"})
        for a in G.ATOMS if q else G.enumerate_types(2, union_atoms=[]):
            for cv in ("none", "ld"):
                citems.append({"type": a, "consts": cv, "shape": "mand"})
        if not q:
            d3 = [t for t in G.enumerate_types(3, union_atoms=c12.CORE_UNION_ATOMS) if t not in set(G.enumerate_types(2, union_atoms=c12.CORE_UNION_ATOMS))]
            citems += [{"type": ts, "consts": "none", "shape": "chain"} for ts in d3]
        res = pool.map("run_chain", citems, chunk=8, item_deadline=120)
        a_tot = {"evals": 0, "valid": 0, "rejected": 0, "unserialisable": 0, "distinct": 0, "nviol": 0, "programs": 0}
        cerrs = []
        csamples = []
        for it, r in zip(citems, res):
            if r == parallel.HANG:
                r = c12.retry_inproc(run_chain, it, seed, worker_init)
            if r == parallel.HANG:
                hangs += 1
                continue
            if r["class_error"]:
                cerrs.append((it, r["class_error"]))
                continue
            for k in a_tot:
                a_tot[k] += r[k]
            viols += r["viol"]
            if r["sample"] and len(csamples) < 200:
                csamples.append(r["sample"])
        cov["chains"] = dict(a_tot, chain_programs=len(citems), class_errors=len(cerrs), class_error_examples=cerrs[:3], wall_s=round(time.time() - t1, 1))
        # ---------------- Part A: installed schemas
        t1 = time.time()
        inst_items, res, info = c12.run_installed_family(pool, tier, names, seed, fname="run_installed")
        anc = pool.map("ancestor_table", names, chunk=1, item_deadline=300)
        i_tot = {"evals": 0, "valid": 0, "rejected": 0, "nan_skipped": 0, "distinct": 0, "nviol": 0, "rej_kinds": {}}
        isamples = []
        for it, r in zip(inst_items, res):
            if r == parallel.HANG:
                r = c12.retry_inproc(run_installed, it, seed, worker_init, secs=900)
            if r == parallel.HANG:
                hangs += 1
                continue
            c12._merge(i_tot, r)
            for v in r["viol"]:
                v = dict(v)
                v["sig"] = {"part": v["sig"]["part"], "ancestor": v["sig"]["form"], "schema": v["sig"]["schema"], "fields": v["sig"]["fields"]}
                viols.append(v)
            if r["sample"] and len(isamples) < 40:
                isamples.append(r["sample"])
        for n_, a_ in zip(names, anc):
            info[n_]["ancestors"] = a_
        cov["installed"] = dict(i_tot, schemas=info, wall_s=round(time.time() - t1, 1), pair_corpora=f"first {abs(c12.PAIR_K[tier])} value(s) + omission" + (" + None" if c12.PAIR_K[tier] > 0 else ""))
    pick = lambda xs, k: [xs[i] for i in range(0, len(xs), max(1, len(xs) // k))][:k]  # noqa: E731
    viols.sort(key=lambda v: (str((v["input"].get("item") or {}).get("variant", "single")) != "single", len(json.dumps(v["input"], default=str))))
    cov.update(
        evaluations=evals + xevals + a_tot["evals"] + i_tot["evals"] + len(items) + len(xitems),
        distinct_nontrivial=accepted_nontrivial + refused_override + a_tot["distinct"] + i_tot["distinct"],
        programs=programs + xprog + a_tot["programs"],
        accepted_pairs_with_valid_child_instances=accepted_nontrivial,
        hangs=hangs,
        samples=pick(samples, 8) + pick(csamples, 4) + pick(isamples, 3),
        exhaustive=hangs == 0,
        rule=(
            "Part B: grammar as C12 without Date; types of depth<=2 = every atom, Optional/List/Set of every atom, Union of every ordered pair of "
            + ("the core atoms " + " ".join(CORE) if q else "distinct atoms")
            + "; EVERY ordered pair (TP,TC) of these types -> class P: f: TP, class C(P): f: TC, schemas.check_plugin(C); accepted pairs x the union of both "
            "field corpora (child accepts => parent must parse the child's bytes); refused pairs re-checked with @override. Variants 'multi' (two more "
            "identically-typed overridden fields around f), 'via' (override through an empty intermediate class), 'mid' (the override sits in an intermediate class, "
            "the checked class is a leaf below it), 'decl' (another field sorting before f carries an explicit @override), 'nest' (the field holds a nested schema and the "
            "child's nested subclass widens an inner field) and 'mm' (an intermediate @make_mandatory class, child re-declares the field as T / Optional[T]) over "
            + ("all atom pairs" if q else "all pairs of depth<=2 types with core unions")
            + ". Extra policy: parent extra x child extra(inherit|allow|ignore|forbid) x new field via annotation(optional|required) | "
            "add_const_fields | @ld new | @ld override | plain assignment without annotation x chain length 1|2 x parent constants none|ld. Same-name types: parent and child field typed with two products of one type factory (identical module-qualified name, different maximum length) in 5 shapes. Part A: 3-level generated chains "
            "(grandparent f: T with constants, parent + optional field, child + optional field and constant override; and Optional[T] parents with "
            "@make_mandatory children) over all depth<=2 types x the field corpus; installed schemas: minimal + all 1-field deviations (full corpora) + "
            "2-field deviations (reduced corpora), each parsed by every ancestor class and every schemas.parent_path plugin. "
            "evaluations = programs judged + inputs tried; distinct_nontrivial = accepted pairs (TP != TC) with >=1 valid child instance + refused pairs "
            "re-checked with @override + distinct serialisations of valid chain/installed instances parsed by their ancestors."
        ),
        wall_s_internal=round(time.time() - t0, 1),
    )
    return {
        "level": "exploration",
        "coverage": cov,
        "violations": viols,
        "assumptions": [
            "the plugin-time check is what PGSchema.check_plugin runs (check_types)",
            "'parent accepts' = Parent.parse_raw(bytes(child_obj)) returns; any exception = rejects",
            "child instances whose bytes() raises are C12's subject and only counted here",
            "the value corpus is finite: an accepted pair without a witness in the corpus is not proven sound beyond it",
        ],
    }


# ------------------------------------------------------------------------------------------------ replay


def replay(data):
    inp = data["input"]
    worker_init(seed=inp.get("seed", 0))
    kind = inp["kind"]
    if kind == "constraint":
        r = run_constraint(inp["item"])
        return r["viol"][0] if r["viol"] else None
    if kind == "samename":
        r = run_samename(inp["item"])
        return r["viol"][0] if r["viol"] else None
    if kind == "pair":
        item = inp["item"]
        if inp.get("assign") is None:
            r = run_pair(item)
            return r["viol"][0] if r["viol"] else None
        P, child, tp, tc = _pair_classes(item)
        C = child()
        if not check_ok(C):
            return None
        st, what = _witness(P, C, inp["assign"])
        return {"sig": data.get("sig"), "input": inp, "what": what[1]} if st == "witness" else None
    if kind == "extra":
        try:
            C, ancestors = _extra_classes(inp["item"])
        except Exception:
            return None
        if not check_ok(C):
            return None
        try:
            o = C(**G.build_kwargs(inp["assign"], _E))
        except Exception:
            return None
        b, fails = _ancestor_failures(o, ancestors)
        return {"sig": data.get("sig"), "input": inp, "what": fails[0][2]} if fails else None
    if kind == "chain":
        C, ancestors, t = _chain(inp["item"])
        try:
            o = C(**G.build_kwargs(inp["assign"], _E))
        except Exception:
            return None
        b, fails = _ancestor_failures(o, ancestors)
        return {"sig": data.get("sig"), "input": inp, "what": fails[0][2]} if fails else None
    if kind == "installed":
        (status, _k), fails, _nan, _ser = _anc_case(inp["schema"], inp["deviation"])
        return {"sig": data.get("sig"), "input": inp, "what": fails[0][2]} if fails else None
    raise ValueError(kind)
