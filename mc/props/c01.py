"""C01 - IH5 overlay is transparent: patch boundaries are unobservable.

Exhaustive BFS over tree-op histories on a real IH5Record (<= N containers) in lock-step with
a plain h5py tree; plus a directed grammar of replace-then-touch chains over up to 5 containers.
"""
from __future__ import annotations

import itertools
import time

from mc import parallel, treeexp


def configs(tier, seed):
    q = tier == "quick"
    return {
        # name: (cfg, depth)
        "narrow": (treeexp.make_cfg("narrow", seed, "narrow", copies=False, moves=False, max_containers=3), 5 if q else 6),
        "narrow-cpmv": (treeexp.make_cfg("narrow-cpmv", seed, "narrow", max_containers=3), 3 if q else 4),
        "narrow-rel": (
            treeexp.make_cfg("narrow-rel", seed, "narrow", routes=("rel",), req=True, max_containers=2),
            3 if q else 4,
        ),
        "wide": (treeexp.make_cfg("wide", seed, "wide", req=True, max_containers=3), 2 if q else 3),
        "narrow-bad": (treeexp.make_cfg("narrow-bad", seed, "narrow", copies=False, moves=False, max_containers=2, bad=True), 3 if q else 4),
        "deep": (treeexp.make_cfg("deep", seed, "deep", moves=False, max_containers=2), 3 if q else 5),
        "repeat": (treeexp.make_cfg("repeat", seed, "repeat", max_containers=2), 3 if q else 4),
        "values": (treeexp.make_cfg("values", seed, "narrow", copies=False, moves=False, max_containers=2, values=True), 2 if q else 3),
        "relcm": (treeexp.make_cfg("relcm", seed, "narrow", copies=False, moves=False, max_containers=2, relcm=True), 3 if q else 4),
        "narrow4": (
            treeexp.make_cfg("narrow4", seed, "narrow", copies=False, moves=False, max_containers=4, attr_keys=1),
            4 if q else 6,
        ),
    }


def directed_histories(seed, tier):
    """Replace-then-touch chains: build X . B . replace X . B^n . touch X . B^m . touch2 (observe at each step)."""
    a, b, c, k = treeexp.spell(seed)
    A, AA, AB = f"/{a}", f"/{a}/{a}", f"/{a}/{b}"
    builds = [
        [["set", A, "abs"]],
        [["grp", A, "abs"]],
        [["set", AA, "abs"]],
        [["set", AA, "abs"], ["set", AB, "abs"]],
        [["set", AA, "abs"], ["sa", A, k, "abs"]],
        [["grp", AA, "abs"], ["sa", AA, k, "abs"]],
        [["set", f"{AA}/{a}", "abs"]],
    ]
    replaces = [
        [["del", A, "abs"]],
        [["del", A, "abs"], ["grp", A, "abs"]],
        [["del", A, "abs"], ["set", A, "abs"]],
        [["del", A, "abs"], ["set", AB, "abs"]],
        [["del", A, "abs"], ["B"], ["grp", A, "abs"]],
        [["del", AA, "abs"]],
        [["del", AA, "abs"], ["grp", AA, "abs"]],
        [["del", AA, "abs"], ["set", AA, "abs"]],
        [["da", A, k, "abs"]],
        [["mv", A, f"/{c}", "abs"]],
        [["mv", A, f"/{c}", "abs"], ["grp", A, "abs"]],
    ]
    touches = [
        [["set", f"{A}/{c}", "abs"]],
        [["grp", f"{A}/{c}", "abs"]],
        [["sa", A, k, "abs"]],
        [["sa", A, a, "abs"]],
        [["set", AA, "abs"]],
        [["grp", AA, "abs"]],
        [["set", f"{AA}/{c}", "abs"]],
        [["sa", AA, k, "abs"]],
        [["del", AB, "abs"]],
        [["rg", AA, "abs"]],
        [["rg", A, "abs"]],
        [["cp", A, f"/{b}", "abs"]],
        [["mv", f"/{c}", A, "abs"]],
    ]
    q = tier == "quick"
    ns = (0, 1, 2) if q else (0, 1, 2, 3)
    out = []
    # single touch after n boundaries: the view is checked from the first replace step on
    for bu, rp, n, t1 in itertools.product(builds, replaces, ns, touches):
        h = bu + [["B"]] + rp + [["B"]] * n + t1
        out.append((h, len(bu) + 1))
    # second touch (after m further boundaries)
    seconds = [touches[0], touches[2], touches[5]] if q else touches
    for bu, rp, n, t1, m, t2 in itertools.product(builds, replaces, (0,) if q else (0, 1, 2), touches, (1,) if q else (0, 1), seconds):
        h = bu + [["B"]] + rp + [["B"]] * n + t1 + [["B"]] * m + t2
        out.append((h, len(h) - len(t2) - m - len(t1)))
    return out


def via_histories(seed, tier):
    """Absolute paths addressed through the handle of another group (created before or within the current container):
    build X . B . [delete] . [B] . op on X via the other group . tail.  -> [(history, check_from)]"""
    a, b, c, k = treeexp.spell(seed)
    A, AA, O = f"/{a}", f"/{a}/{a}", f"/{c}"
    via = "via:" + O
    builds = [[["set", AA, "abs"]], [["grp", A, "abs"]], [["set", AA, "abs"], ["sa", A, k, "abs"]], [["set", A, "abs"]]]
    pres = [[], [["del", A, "abs"]], [["del", AA, "abs"]]]
    ops = [["grp", A, via], ["set", A, via], ["set", AA, via], ["grp", AA, via], ["del", A, via], ["del", AA, via], ["rg", A, via], ["rg", AA, via]]
    tails = [[], [["B"]], [["B"], ["set", AA, "abs"]]]
    out = []
    for bu, early, pre, nb, op, tail in itertools.product(builds, (True, False), pres, (0, 1), ops, tails):
        recv = [["grp", O, "abs"]]
        h = bu + (recv if early else []) + [["B"]] + pre + [["B"]] * nb + ([] if early else recv) + [op] + tail
        out.append((h, len(bu)))
    return out


def run(tier, seed):
    cfgs = configs(tier, seed)
    dcfg = treeexp.make_cfg("directed", seed, "narrow", max_containers=8)
    allc = {n: c for n, (c, _) in cfgs.items()}
    allc["directed"] = dcfg
    t0 = time.time()
    budget = 900 if tier == "quick" else 3000
    violations = []
    cov = {"families": {}}
    states = transitions = 0
    samples = []
    capped = False
    with parallel.make_pool("mc.treeexp", {"cfgs": allc}) as pool:
        for name, (cfg, depth) in cfgs.items():
            r = treeexp.bfs(pool, name, cfg, depth, budget_s=budget, t0=t0)
            violations += r.pop("violations")
            states += r["states"]
            transitions += r["transitions"]
            samples += [{"family": name, "history": h} for h in r.pop("samples")[:2]]
            capped = capped or r["capped"]
            r["ops_in_alphabet"] = len(cfg["ops"])
            r["max_containers"] = cfg["max_containers"]
            r["target_depth"] = depth
            cov["families"][name] = r
        hs = directed_histories(seed, tier) + via_histories(seed, tier)
        res = pool.map("check_history", [("directed", h, cf) for h, cf in hs], chunk=16, item_deadline=60)
        steps = 0
        nd = 0
        for (h, _cf), r in zip(hs, res):
            if r == parallel.HANG:
                violations.append(treeexp._viol(dcfg, h, ["?"], "worker-hang", "history hung the worker"))
                continue
            v, n = r
            steps += n
            nd += 1
            if v is not None:
                violations.append(v)
        cov["families"]["directed"] = {"histories": nd, "steps_checked": steps, "max_containers": 5 if tier == "quick" else 6}
        transitions += steps
        samples.append({"family": "directed", "history": hs[len(hs) // 3][0]})
    cov.update(
        states=states,
        transitions=transitions,
        traces_validated_against_impl=transitions,
        samples=samples,
        exhaustive=not capped,
        distinct_outcomes=sum(f.get("views", 0) for f in cov["families"].values()),
        rule="every history over the per-family alphabet up to the completed depth, deduplicated on the raw persisted "
        "state of all containers; every transition executed on a real IH5Record and on h5py(core) and compared "
        "(outcome, full dump through visititems / keys+[] / items+absolute paths, in/get/len/visit probes); "
        "directed = complete grammar build.B.replace.B^n.touch.B^m.touch",
    )
    return {
        "level": "model_checking",
        "coverage": cov,
        "violations": violations,
        "assumptions": [
            "h5py.File(driver='core') is the plain-tree reference (documented IH5 contract)",
            "dataset/attribute values are fresh integers; the code under test never inspects them (except the DEL marker)",
            "one HDF5/h5py build, tmpfs",
        ],
    }


def replay(data):
    treeexp.worker_init({})
    v, _ = treeexp.check_history((data["config"], data["history"]))
    return v
