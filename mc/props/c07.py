"""C07 - metadata comes back as stored and queries are exact.

Container BFS (as C06, alphabet biased to metadata: 3-level chain aa<bb<cc, sibling dd, auxiliary xx,
unknown zz). Per state, for every node x schema x version: get / [] / in / keys against the model; for
every start node x (schema, version): container- and group-level query == brute force over the model.
Environment upgrade (objects of different schema versions coexisting) is realised with a process
boundary: containers written by an environment that only has the 1.0.0 family are continued in an
environment that only has the 1.1.0 family.
"""
from __future__ import annotations

import mc.env as env  # noqa: F401

import os
import shutil
import time

from mc import contexp, parallel
from mc.contexp import check
from mc.impl import h5ops
from mc.props import c06

ANCESTORS = {"vt.a0": ["vt.aa", "vt.a0"], "vt.aa": ["vt.aa"], "vt.bb": ["vt.aa", "vt.bb"], "vt.cc": ["vt.aa", "vt.bb", "vt.cc"], "vt.dd": ["vt.aa", "vt.dd"], "core.file": ["core.file"], "core.dir": ["core.dir"]}
QUERY_SCHEMAS = ["vt.aa", "vt.bb", "vt.cc", "vt.dd", "core.file", "vt.xx", "vt.zz"]
VERSIONS = [None, (1, 0, 0), (1, 1, 0), (1, 2, 0), (2, 0, 0), (0, 1, 0)]
GRID = (
    [(S, v) for S in ("vt.aa", "vt.bb") for v in VERSIONS]
    + [(S, v) for S in ("vt.cc", "vt.dd", "vt.a0") for v in (None, (1, 0, 0))]
    + [("core.file", None), ("core.file", (0, 1, 0)), ("vt.xx", None), ("vt.zz", None)]
)


def make_cfg(name, seed, max_dev, envs=("old",), checks=("meta_exact", "queries_exact"), names=None):
    cfg = c06.make_cfg(name, seed, max_dev=max_dev, checks=checks, schemas=["vt.aa", "vt.bb", "vt.cc", "vt.dd"], envs=envs, names=names)
    G, GD, E, H, GF = cfg["paths"]
    ops = [o for o in cfg["ops"] if o[0] not in ("R", "B")]
    ops += [["attach", E, "vt.xx"], ["attach", G, "vt.zz"], ["attach", GD, "core.file"], ["detach", GD, "vt.cc"], ["attach", E, "vt.a0"], ["attach", "/", "vt.a0"], ["R"], ["B"]]
    cfg["ops"] = ops
    cfg["skip_checks_on_clean_fail"] = True
    return cfg


def compatible(S, v, T, w):
    """Is a stored object T@w an answer to a request for (S, v)?  (property text / DESIGN C07)"""
    if S not in ANCESTORS.get(T, []):
        return False
    if v is None:
        return True
    u = w  # every member of the family is released with the same version as the object's schema
    return u[0] == v[0] and u[1] <= v[1]


def node_objects(model, node):
    return {s: val for (p, s), val in model.meta.items() if p == node}


def all_nodes(model):
    out = ["/"]
    model.tree.visit(lambda n: out.append("/" + n))
    return out


@check("meta_exact")
def meta_exact(cont, model, cfg, ctx):
    from metador_core.plugin.metaclass import UndefVersion
    from metador_core.plugins import schemas

    mc = cont.mc
    for node in all_nodes(model):
        meta = mc[node].meta if node != "/" else mc["/"].meta
        objs = node_objects(model, node)
        ks = sorted(meta.keys())
        if ks != sorted(objs):
            return {"kind": "meta-keys", "what": f"meta.keys() at {node} = {ks}, attached per model {sorted(objs)}"}
        if len(meta) != len(objs) or sorted(iter(meta)) != sorted(objs):
            return {"kind": "meta-keys", "what": f"len/iter of meta at {node} disagree with keys"}
        for S, v in GRID:
            if True:
                cands = {T: val for T, val in objs.items() if compatible(S, v, T, tuple(val[0]))}
                key = (S, v) if v is not None else S
                try:
                    inn = key in meta
                except Exception as e:
                    return {"kind": "meta-in-raised", "what": f"({S},{v}) in meta at {node} raised {type(e).__name__}: {e}", "sig": {"schema": S}}
                if bool(inn) != bool(cands):
                    return {"kind": "meta-in", "what": f"({S},{v}) in meta at {node} = {inn}, model candidates {sorted(cands)} (attached {[(t, val[0]) for t, val in objs.items()]})", "sig": {"schema": S, "version": v}}
                cls = None
                try:
                    cls = schemas.get(S, v)
                except Exception:
                    cls = None
                if cls is None:
                    continue  # the environment has no class for that request: nothing to parse with
                try:
                    got = meta.get(S, v)
                except Exception as e:
                    return {"kind": "meta-get-raised", "what": f"meta.get({S},{v}) at {node} raised {type(e).__name__}: {e}", "sig": {"schema": S, "version": v}}
                if not cands:
                    if got is not None:
                        return {"kind": "meta-get-phantom", "what": f"meta.get({S},{v}) at {node} returned an object, nothing compatible is attached", "sig": {"schema": S}}
                    continue
                if got is None:
                    return {"kind": "meta-get-missing", "what": f"meta.get({S},{v}) at {node} is None, compatible objects {sorted(cands)} are attached", "sig": {"schema": S, "version": v}}
                real = UndefVersion._unwrap(cls) or cls
                if not isinstance(got, real):
                    return {"kind": "meta-get-class", "what": f"meta.get({S},{v}) returned {type(got).__name__}, not an instance of the requested schema class"}
                if S in cands:
                    expected = [real.parse_obj(dict(cands[S][1])).dict()]
                else:
                    expected = [real.parse_obj(dict(val[1])).dict() for val in cands.values()]
                if got.dict() not in expected:
                    return {"kind": "meta-get-value", "what": f"meta.get({S},{v}) at {node} = {got.dict()}, expected one of {expected}", "sig": {"schema": S, "exact": S in cands}}
                # [] agrees with get
                if v is None:
                    try:
                        g2 = meta[S]
                    except Exception as e:
                        return {"kind": "meta-getitem", "what": f"meta[{S}] at {node} raised {type(e).__name__} although get returns an object"}
                    if g2.dict() not in expected:
                        return {"kind": "meta-getitem", "what": f"meta[{S}] differs from stored object"}
    return None


@check("queries_exact")
def queries_exact(cont, model, cfg, ctx):
    mc = cont.mc
    nodes = all_nodes(model)
    groups = [n for n in nodes if n == "/" or h5ops.is_group(model.tree[n])]
    for S, v in GRID:
        if True:
            carriers = set()
            for (p, T), val in model.meta.items():
                if compatible(S, v, T, tuple(val[0])):
                    carriers.add(p)
            for start in nodes:
                exp = sorted(p for p in carriers if p == start or start == "/" or p.startswith(start.rstrip("/") + "/"))
                variants = []
                sn = mc[start] if start != "/" else mc["/"]
                variants.append(("container.query(node=)", lambda: mc.metador.query(S, v, node=sn)))
                if start == "/":
                    variants.append(("container.query()", lambda: mc.metador.query(S, v)))
                else:
                    variants.append(("node.metador.query", lambda: sn.metador.query(S, v)))
                for vname, fn in variants:
                    try:
                        got = [n.name for n in fn()]
                    except Exception as e:
                        return {"kind": "query-raised", "what": f"{vname}({S},{v}) from {start} raised {type(e).__name__}: {e}", "sig": {"variant": vname, "schema": S}}
                    if sorted(got) != exp:
                        return {
                            "kind": "query-set",
                            "what": f"{vname}({S},{v}) from {start} = {sorted(got)}, expected {exp}; attached: {sorted((p, t, val[0]) for (p, t), val in model.meta.items())}",
                            "sig": {"variant": vname, "schema": S, "version": v, "extra": bool(set(got) - set(exp)), "missing": bool(set(exp) - set(got))},
                        }
    return None


# ----------------------------------------------------------------------------------- upgrade phase


def materialize(task):
    """(old environment) build a container from a history and leave its files in `outdir`."""
    cfg_name, driver, hist, outdir = task
    cfg = contexp.CFGS[cfg_name]
    c = contexp.build(cfg, driver, hist)
    try:
        c.mc.close()
        os.makedirs(outdir, exist_ok=True)
        for f in os.listdir(c.dir):
            shutil.copy(os.path.join(c.dir, f), outdir)
        return True
    finally:
        try:
            c.close()
        except Exception:
            pass


class ContFrom(contexp.Cont):
    def __init__(self, driver, srcdir, name="cont"):
        from metador_core.container import MetadorContainer
        import h5py

        from mc.impl import ih5

        self.driver = driver
        self.dir = env.fresh_dir("u")
        for f in os.listdir(srcdir):
            shutil.copy(os.path.join(srcdir, f), self.dir)
        self.path = os.path.join(self.dir, name + (".h5" if driver == "h5" else ""))
        self.n = 1000
        if driver == "h5":
            self.raw = h5py.File(self.path, "r+")
        else:
            self.raw = ih5.record_class("mf" if driver == "mf" else "ih5")(self.path, "r+")
        self.mc = MetadorContainer(self.raw)


def expand_upgraded(task):
    """(new environment) continue a container written by the old environment; check after each op."""
    cfg_name, driver, srcdir, old_hist, new_hist = task
    cfg = contexp.CFGS[cfg_name]
    out = []
    for op in contexp.enabled(cfg, new_hist, driver):
        cont = ContFrom(driver, srcdir)
        try:
            ok = True
            for o in new_hist:
                cont.apply(o)
            cont.n = 1000 + len(new_hist)
            ri = cont.apply(op)
            # model: old part, then new part (ops that fail in the model have no effect)
            m = contexp.build_model(old_hist, contexp.schema_info(("old",)))
            m.si = contexp.schema_info(("new",))
            m.n = 1000
            meta_before = None
            rm = "ok"
            seq = new_hist + [op]
            good = []
            for i, o in enumerate(seq):
                m.n = 1000 + i
                snap = dict(m.meta)
                r = m.apply(o)
                if r != "ok":
                    # rebuild without the failed op
                    m.close()
                    m = contexp.build_model(old_hist, contexp.schema_info(("old",)))
                    m.si = contexp.schema_info(("new",))
                    for j, o2 in good:
                        m.n = 1000 + j
                        m.apply(o2)
                    if i == len(seq) - 1:
                        rm = "fail"
                else:
                    good.append((i, o))
            try:
                if ri == "timeout":
                    out.append((op, "viol", None, contexp._viol("nonterm", cfg, driver, old_hist + new_hist, op, "did not terminate")))
                    continue
                v = None
                if (ri == "ok") != (rm == "ok"):
                    v = contexp._viol("outcome", cfg, driver, old_hist + [["UPGRADE"]] + new_hist, op, f"container op {ri}, reference {rm}", {"impl": ri.split(":")[0], "model": rm, "upgraded": True})
                if v is None:
                    v = contexp.run_checks(cont, m, cfg, old_hist + [["UPGRADE"]] + new_hist, op, {"impl": ri, "model": rm})
                    if v is not None:
                        v["sig"]["upgraded"] = True
                if v is not None:
                    v["config"]["old_hist"] = old_hist
                    v["config"]["new_hist"] = new_hist + [op]
                    out.append((op, "viol", None, v))
                    continue
                out.append((op, "ok" if ri == "ok" else "fail", contexp.raw_canon(cont) if ri == "ok" else None, None))
            finally:
                m.close()
        finally:
            cont.close()
    return out


def check_opened(task):
    """(new environment) just open a container written by the old environment and run the checks."""
    cfg_name, driver, srcdir, old_hist = task
    cfg = contexp.CFGS[cfg_name]
    cont = ContFrom(driver, srcdir)
    try:
        m = contexp.build_model(old_hist, contexp.schema_info(("old",)))
        try:
            v = contexp.run_checks(cont, m, cfg, old_hist + [["UPGRADE"]], ["open"], {"impl": "ok", "model": "ok"})
            if v is not None:
                v["sig"]["upgraded"] = True
                v["config"]["old_hist"] = old_hist
                v["config"]["new_hist"] = []
            return v
        finally:
            m.close()
    finally:
        cont.close()


worker_init = contexp.worker_init
expand = contexp.expand
init_key = contexp.init_key


def run(tier, seed):
    q = tier == "quick"
    cfg = make_cfg("c07", seed, 1 if q else 2)
    cfg_new = make_cfg("c07n", seed, 1, envs=("new",))
    depth = {"h5": 2 if q else 4, "ih5": 2 if q else 3}
    budget = 600 if q else 2400
    t0 = time.time()
    fam, violations, samples = {}, [], []
    cfg_odd = make_cfg("c07odd", seed, 1, names=c06.ODD_NAMES)
    with parallel.make_pool("mc.props.c07", {"cfgs": {"c07": cfg, "c07odd": cfg_odd}, "envs": ["old"], "check_modules": ["mc.props.c07"]}) as pool:
        for drv in ("h5", "ih5"):
            r = contexp.bfs(pool, "c07", cfg, drv, depth[drv], budget_s=budget * 0.6, t0=t0)
            violations += r.pop("violations")
            samples += [{"driver": drv, "history": h} for h in r.pop("samples")[:1]]
            fam[drv] = r
        # the same alphabet over unusual but legal node names
        for drv in ("h5", "ih5"):
            r = contexp.bfs(pool, "c07odd", cfg_odd, drv, 2 if q or drv == "ih5" else 3, budget_s=budget * 0.7, t0=t0)
            violations += r.pop("violations")
            r.pop("samples")
            fam[drv + "-odd-names"] = r
        r = contexp.bfs(pool, "c07", cfg, "h5", 1 if q else 2, budget_s=budget * 0.7, t0=t0, start=c06.starts(cfg)["rich"])
        violations += r.pop("violations")
        fam["h5-from-rich"] = r
        r = contexp.bfs(pool, "c07", cfg, "h5", 1 if q else 2, budget_s=budget * 0.7, t0=t0, start=c06.starts(cfg)["descendants"])
        violations += r.pop("violations")
        fam["h5-from-descendants"] = r
        # ---- environment upgrade: old env writes every history of depth <= k (attach/mk ops only) ...
        k = 2 if q else 3
        G, GD, E, H, GF = cfg["paths"]
        wops = [["mkds", E], ["mkds", GD], ["attach", "/", "vt.a0"], ["attach", "/", "vt.aa"], ["attach", E, "vt.cc"], ["attach", GD, "vt.bb"], ["attach", E, "vt.aa"], ["attach", GD, "vt.dd"], ["attach", "/", "vt.bb"]]
        import itertools

        olds = []
        for n in range(1, k + 1):
            for combo in itertools.permutations(wops, n):
                h = [list(o) for o in combo]
                # keep histories in which every op succeeds (others are duplicates of shorter ones)
                m = contexp.build_model([], contexp.schema_info(("old",)))
                ok = all(m.apply(o) == "ok" for o in h)
                m.close()
                if ok:
                    olds.append(h)
        updir = env.fresh_dir("upg")
        mtasks = []
        for i, h in enumerate(olds):
            for drv in ("h5", "ih5") if (not q or i % 3 == 0) else ("h5",):
                mtasks.append(("c07", drv, h, os.path.join(updir, f"{drv}{i}")))
        pool.map("materialize", mtasks, chunk=4, item_deadline=120)
    upg_trans = upg_opened = 0
    with parallel.make_pool("mc.props.c07", {"cfgs": {"c07n": cfg_new}, "envs": ["new"], "check_modules": ["mc.props.c07"]}) as pool2:
        res = pool2.map("check_opened", [("c07n", t[1], t[3], t[2]) for t in mtasks], chunk=4, item_deadline=120)
        for v in res:
            upg_opened += 1
            if v not in (None, parallel.HANG):
                violations.append(v)
        # ... and the new environment continues each of them by every op (depth 1; thorough: depth 2)
        etasks = [("c07n", t[1], t[3], t[2], []) for t in mtasks]
        res = pool2.map("expand_upgraded", etasks, chunk=1, item_deadline=300)
        nxt = []
        for t, rl in zip(etasks, res):
            if rl == parallel.HANG:
                continue
            for op, status, key, v in rl:
                upg_trans += 1
                if v is not None:
                    violations.append(v)
                elif status == "ok" and not q and op[0] in ("attach", "detach", "move", "copy"):
                    nxt.append((t[0], t[1], t[2], t[3], [op]))
        if not q:
            res = pool2.map("expand_upgraded", nxt[:600], chunk=1, item_deadline=300)
            for t, rl in zip(nxt, res):
                if rl == parallel.HANG:
                    continue
                for op, status, key, v in rl:
                    upg_trans += 1
                    if v is not None:
                        violations.append(v)
    env.rmtree(updir)
    cov = {
        "states": sum(f["states"] for f in fam.values()) + len(mtasks),
        "transitions": sum(f["transitions"] for f in fam.values()) + upg_trans,
        "traces_validated_against_impl": sum(f["transitions"] for f in fam.values()) + upg_trans + upg_opened,
        "families": fam,
        "upgrade": {"old_env_containers": len(mtasks), "opened_in_new_env": upg_opened, "transitions_in_new_env": upg_trans, "old_depth": k},
        "alphabet": len(cfg["ops"]),
        "query_grid": [f"{S}@{v}" for S, v in GRID],
        "exhaustive": not any(f["capped"] for f in fam.values()),
        "samples": samples + [{"old_env_history": olds[len(olds) // 2], "then": "UPGRADE + every op"}],
        "rule": "container histories up to the completed depth (as C06; schemas aa<bb<cc, dd, auxiliary xx, unknown zz, core.file); in every state, for every node x the (schema, version) grid (20 pairs): "
        "in/get/[]/keys vs model; for every start node x schema x version: container.query(node=), group.metador.query, node.metador.query == brute force; "
        "upgrade: every all-successful write history of depth<=k in an environment with only the 1.0.0 family, reopened and continued by every op in an environment with only the 1.1.0 family",
    }
    return {
        "level": "model_checking",
        "coverage": cov,
        "violations": violations,
        "assumptions": [
            "an environment provides one version of each schema (documented limitation); mixed versions arise only through reopening in an upgraded environment",
            "get() is judged only where the environment has a class for the requested (schema, version)",
            "with several compatible child objects at a node any of them may serve a parent request (documented 'Parent Consistency')",
        ],
    }


def replay(data):
    c = data["config"]
    if data["sig"].get("upgraded"):
        # needs two environments -> two processes: run the old part in a subprocess
        import json
        import subprocess
        import sys

        cfg = make_cfg("c07", env.seed(), 9)
        cfg_new = make_cfg("c07n", env.seed(), 9, envs=("new",))
        updir = env.fresh_dir("upg")
        code = (
            "import mc.env, json, sys\nfrom mc import contexp\nfrom mc.props import c07\n"
            "cfg=c07.make_cfg('c07', mc.env.seed(), 9)\ncontexp.worker_init({'c07':cfg}, envs=['old'], check_modules=['mc.props.c07'])\n"
            f"c07.materialize(('c07', {c['driver']!r}, json.loads({json.dumps(json.dumps(c['old_hist']))}), {os.path.join(updir, 'x')!r}))\n"
        )
        subprocess.run([sys.executable, "-W", "ignore", "-c", code], check=True, env=dict(os.environ))
        contexp.worker_init({"c07n": cfg_new}, envs=["new"], check_modules=["mc.props.c07"])
        nh = [list(o) for o in c["new_hist"]]
        if not nh:
            return check_opened(("c07n", c["driver"], os.path.join(updir, "x"), c["old_hist"]))
        cfg_new["ops"] = [nh[-1]]
        for op, status, key, v in expand_upgraded(("c07n", c["driver"], os.path.join(updir, "x"), c["old_hist"], nh[:-1])):
            if v is not None:
                return v
        return None
    cfg = make_cfg(c.get("cfg", "c07"), env.seed(), 9, names=c06.names_for(c.get("cfg")))
    cfg["checks"] = c["checks"]
    contexp.worker_init({cfg["name"]: cfg}, envs=["old"], check_modules=["mc.props.c07"])
    return contexp.check_history((cfg, c["driver"], data["history"]))
