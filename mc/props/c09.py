"""C09 - containers behave identically on plain HDF5 and on IH5 records.

Product system: the same container history is applied in lock-step to MetadorContainers over
h5py.File, IH5Record and IH5MFRecord; patch boundaries (IH5 side only) and reopen points are
deviations placed at every position. Oracle is purely differential: same success/failure at every
step and equal user view (data, attributes, metadata JSON, query result sets).
"""
from __future__ import annotations

import mc.env as env  # noqa: F401

import hashlib
import time

from mc import contexp, parallel
from mc.impl import h5ops
from mc.props import c06

DRIVERS = ("h5", "ih5", "mf")
worker_init = contexp.worker_init

QUERY = [("vt.aa", None), ("vt.bb", None), ("vt.cc", None), ("core.file", None), ("vt.aa", (1, 0, 0)), ("vt.aa", (2, 0, 0))]


def make_cfg(seed, max_dev):
    cfg = c06.make_cfg("c09", seed, max_dev=max_dev, checks=(), schemas=["vt.aa", "vt.bb", "vt.cc", "core.file"])
    G, GD, E, H, GF = cfg["paths"]
    cfg["ops"] = cfg["ops"][:-2] + [["sa", G, "k"], ["sa", GD, "k"], ["sa", "/", "k"], ["da", "/", "k"], ["da", GD, "k"], ["rgrp", G], ["rgrp", H], ["mkds", GF], ["mkgrp", f"{H}/{G.strip('/')}"],
        ["gmove", G, GD.split("/")[-1], "zz"], ["gcopy", G, GD.split("/")[-1], "zz"], ["gcopy", G, GD.split("/")[-1], "yy/zz"],
        ["mkdsv", E, "int8_127"], ["mkdsv", E, "void1"], ["mkdsv", GD, "bytes7f"], ["mkdsv", H, "uint8_127"], ["mkdsv", H, "void2"],
        ["R"], ["B"]]
    return cfg


def full_view(mc, cfg):
    uv = contexp.user_view(mc, cfg["paths"])
    metas = []
    nodes = ["/"] + ["/" + n for n in uv["names"]]
    for n in nodes:
        node = mc[n]
        m = node.meta
        ks = sorted(m.keys())
        objs = []
        for k in ks:
            o = m.get(k)
            objs.append((k, o.json() if o is not None else None))
        metas.append((n, tuple(objs)))
    queries = []
    for S, v in QUERY:
        queries.append((S, v, tuple(sorted(x.name for x in mc.metador.query(S, v)))))
    schemas = tuple(sorted(str(k) for k in mc.metador.schemas.keys()))
    return (uv["visit"], uv["rec"] == uv["visit"], uv["items"] == uv["visit"], uv["names"], uv["groups"], uv["probes"], tuple(metas), tuple(queries), schemas, uv["nav"])


def _viol(cfg, hist, op, kind, detail, pair):
    return {
        "sig": {"kind": kind, "op": op[0] if op else None, "drivers": list(pair)},
        "what": detail,
        "history": hist + ([op] if op else []),
        "config": {"seed": env.seed()},
    }


def _diff(a, b):
    names = ["visit-dump", "keys-recursion-consistent", "items-consistent", "visit-names", "group-listings", "probes", "metadata", "queries", "schemas", "navigation (parent listings, early-exit visits)"]
    for nm, x, y in zip(names, a, b):
        if x != y:
            sx, sy = str(x), str(y)
            return f"{nm}: {sx[:400]} VS {sy[:400]}"
    return "?"


class Triple:
    def __init__(self, cfg, hist):
        self.conts = {d: contexp.Cont(d) for d in DRIVERS}
        for op in hist:
            for d, c in self.conts.items():
                c.apply(op)

    def close(self):
        for c in self.conts.values():
            c.close()

    def key(self):
        return hashlib.blake2b(b"".join(contexp.raw_canon(self.conts[d]) for d in DRIVERS), digest_size=16).digest()


def step_check(cfg, tr, hist, op):
    n = len(hist)
    res = {}
    for d, c in tr.conts.items():
        c.n = n
        res[d] = c.apply(op)
    if any(r == "timeout" for r in res.values()):
        return _viol(cfg, hist, op, "nonterm", f"outcomes {res}", [d for d in res if res[d] == "timeout"])
    oks = {d: r == "ok" for d, r in res.items()}
    if len(set(oks.values())) > 1:
        bad = "ih5" if oks["ih5"] != oks["h5"] else "mf"
        return _viol(cfg, hist, op, "outcome", f"step succeeds/fails differently: {res}", ("h5", bad))
    views = {}
    for d, c in tr.conts.items():
        try:
            with env.watchdog(60):
                views[d] = full_view(c.mc, cfg)
        except env.StepTimeout:
            return _viol(cfg, hist, op, "view-nonterm", f"reading the {d} container did not terminate", (d,))
        except Exception as e:
            return _viol(cfg, hist, op, "view-raised", f"reading the {d} container raised {type(e).__name__}: {e}", (d,))
    for d in ("ih5", "mf"):
        if views[d] != views["h5"]:
            return _viol(cfg, hist, op, "view", f"user view differs between h5 and {d} after {'successful' if oks['h5'] else 'failed'} op: " + _diff(views["h5"], views[d]), ("h5", d))
    return None


def expand(task):
    cfg_name, hist = task[:2]
    cfg = contexp.CFGS[cfg_name]
    ops = contexp.enabled(cfg, hist, "ih5")
    if len(task) > 2:
        ops = ops[task[2] : task[3]]
    out = []
    tr = None
    base = None
    try:
        for op in ops:
            if tr is None:
                tr = Triple(cfg, hist)
                if base is None:
                    base = tr.key()
            v = step_check(cfg, tr, hist, op)
            if v is not None:
                out.append((op, "viol", None, v))
                tr.close()
                tr = None
                continue
            k = tr.key()
            if k != base:
                out.append((op, "ok", k, None))
                tr.close()
                tr = None
            else:
                out.append((op, "same", None, None))
    finally:
        if tr is not None:
            tr.close()
    return out


def init_key(task):
    cfg_name, start = task
    tr = Triple(contexp.CFGS[cfg_name], start)
    try:
        return tr.key()
    finally:
        tr.close()


def check_history(cfg, hist):
    tr = Triple(cfg, [])
    try:
        for i, op in enumerate(hist):
            v = step_check(cfg, tr, [list(o) for o in hist[:i]], list(op))
            if v is not None:
                return v
        return None
    finally:
        tr.close()


def directed(cfg):
    """Replace-then-touch chains through the container interface: build . B . replace . B^n . touch . R? . touch2."""
    import itertools

    G, GD, E, H, GF = cfg["paths"]
    builds = [
        [["mkds", E], ["sa", E, "k"]],
        [["mkds", E], ["attach", E, "vt.bb"]],
        [["mkgrp", G], ["mkds", GD], ["sa", G, "k"]],
        [["mkgrp", G], ["mkds", GD], ["attach", GD, "vt.aa"], ["attach", G, "vt.cc"]],
        [["sa", "/", "k"], ["attach", "/", "vt.aa"]],
    ]
    repl = {
        E: [[["del", E], ["mkds", E]], [["del", E]], [["da", E, "k"]], [["detach", E, "vt.bb"]], [["move", E, H], ["mkds", E]]],
        G: [[["del", G], ["mkgrp", G]], [["del", G], ["mkds", G]], [["del", GD], ["mkds", GD]], [["move", G, H], ["mkgrp", G]], [["detach", G, "vt.cc"]]],
        "/": [[["da", "/", "k"]], [["detach", "/", "vt.aa"]], [["sa", "/", "k"], ["da", "/", "k"]]],
    }
    touch = {
        E: [[["sa", E, "k"]], [["attach", E, "vt.bb"]], [["attach", E, "vt.cc"]], [["sa", E, "k"], ["da", E, "k"]]],
        G: [[["sa", G, "k"]], [["mkds", GF]], [["attach", G, "vt.cc"]], [["mkds", GD]], [["attach", GD, "vt.aa"]], [["sa", GD, "k"]]],
        "/": [[["sa", "/", "k"]], [["attach", "/", "vt.aa"]], [["attach", "/", "vt.bb"]]],
    }
    out = []
    for bi, b in enumerate(builds):
        node = E if bi < 2 else (G if bi < 4 else "/")
        for rp in repl[node]:
            for n in (1, 2):
                for t in touch[node]:
                    for tail in ([], [["R"]], [["B"]] + touch[node][0]):
                        out.append(b + [["B"]] + rp + [["B"]] * n + t + tail)
    # name collisions between a group and its child (every seed; F26 needed exactly this shape)
    for gname, child in (("n", "n"), ("n", "nn"), ("nn", "n"), ("n", "m")):
        g, d = "/" + gname, f"/{gname}/{child}"
        for pre in ([], [["attach", d, "vt.aa"]], [["attach", d, "vt.aa"], ["B"]]):
            for op in (["gcopy", g, child, "zz"], ["gmove", g, child, "zz"], ["gcopy", g, child, "yy/zz"], ["copy", d, "/zz", False], ["move", d, "/zz"], ["copy", d, f"{g}/zz", False], ["copy", g, "/zz", False], ["move", g, "/zz"], ["copyobj", d, "/zz"], ["copyobj", g, "/zz"], ["copy", "/", "/zz", False]):
                for tail in ([], [["R"]]):
                    out.append([["mkgrp", g], ["mkds", d]] + pre + [op] + tail)
    return out


def check_directed(task):
    cfg_name, hist = task
    cfg = dict(contexp.CFGS[cfg_name])
    return check_history(cfg, hist)


def bfs(pool, cfg, depth, start, budget_s, t0):
    seen = {pool.map("init_key", [("c09", start)])[0]}
    frontier = [start]
    viol, trans, levels, outcomes = [], 0, [], {}
    completed, capped, samples = 0, False, []
    nops = len(cfg["ops"])
    for lvl in range(1, depth + 1):
        if time.time() - t0 > budget_s:
            capped = True
            break
        step = nops if len(frontier) >= 4 * pool.n else max(2, nops // max(1, (4 * pool.n) // max(1, len(frontier))))
        tasks = [("c09", h, lo, lo + step) for h in frontier for lo in range(0, nops, step)]
        res = pool.map("expand", tasks, chunk=1, item_deadline=600)
        nxt = []
        for t, rl in zip(tasks, res):
            if rl == parallel.HANG:
                viol.append(_viol(cfg, t[1], None, "hang", "worker hung", DRIVERS))
                continue
            for op, status, key, v in rl:
                trans += 1
                outcomes[f"{op[0]}:{status}"] = outcomes.get(f"{op[0]}:{status}", 0) + 1
                if v is not None:
                    viol.append(v)
                elif key is not None and key not in seen:
                    seen.add(key)
                    nxt.append(t[1] + [op])
        frontier = nxt
        completed = lvl
        levels.append(len(seen))
        if frontier:
            samples = [frontier[len(frontier) // 2]]
    return {"states": len(seen), "transitions": trans, "completed_depth": completed, "capped": capped, "states_per_level": levels, "outcomes": outcomes, "violations": viol, "samples": samples}


def run(tier, seed):
    q = tier == "quick"
    cfg = make_cfg(seed, 2 if q else 3)
    t0 = time.time()
    budget = 600 if q else 2400
    fam, violations, samples = {}, [], []
    with parallel.make_pool("mc.props.c09", {"cfgs": {"c09": cfg}, "envs": ["old"]}) as pool:
        r = bfs(pool, cfg, 2 if q else 4, [], budget, t0)
        violations += r.pop("violations")
        samples += [{"history": h} for h in r.pop("samples")]
        fam["empty"] = r
        for nm, st in c06.starts(cfg).items():
            r = bfs(pool, cfg, 1 if q else 2, st, budget, t0)
            violations += r.pop("violations")
            samples += [{"history": h} for h in r.pop("samples")]
            fam["from-" + nm] = r
        dh = directed(cfg)
        dres = pool.map("check_directed", [("c09", h) for h in dh], chunk=2, item_deadline=600)
        dsteps = 0
        for h, r in zip(dh, dres):
            dsteps += len(h)
            if r == parallel.HANG:
                violations.append(_viol(cfg, h, None, "hang", "worker hung", DRIVERS))
            elif r is not None:
                violations.append(r)
        fam["directed"] = {"states": len(dh), "transitions": dsteps, "capped": False, "histories": len(dh)}
        samples.append({"history": dh[len(dh) // 2]})
    cov = {
        "states": sum(f["states"] for f in fam.values()),
        "transitions": sum(f["transitions"] for f in fam.values()),
        "traces_validated_against_impl": 3 * sum(f["transitions"] for f in fam.values()),
        "families": fam,
        "alphabet": len(cfg["ops"]),
        "max_boundaries_or_reopens": cfg["max_dev"],
        "drivers": list(DRIVERS),
        "exhaustive": not any(f["capped"] for f in fam.values()),
        "samples": samples or [{"history": []}],
        "rule": "product of three real containers (h5py.File, IH5Record, IH5MFRecord) driven by the same history over the C06 alphabet + user attributes + require_group; "
        "B (IH5 side only) and R at every position up to the deviation bound; state key = triple of raw dumps; every transition compared: outcome, "
        "user tree through all listing primitives, attributes, metadata JSON of every node, query sets, used schema set",
    }
    return {"level": "model_checking", "coverage": cov, "violations": violations, "assumptions": ["purely differential: no reference model decides anything", "documented IH5 subset (no links, printable-ASCII keys)"]}


def replay(data):
    cfg = make_cfg(data["config"].get("seed", 0), 9)
    contexp.worker_init({"c09": cfg}, envs=["old"])
    return check_history(cfg, data["history"])
