"""C10 - patches built on a stub apply to the real record with the same result.

For every deduplicated IH5MFRecord of the bounded tree exploration: create a stub from the newest
manifest; compare skeletons; every existence-based update history (<=2/3 ops) is applied once via the
stub and once directly; manifest/user-block linkage is checked after every commit.
"""
from __future__ import annotations

import mc.env as env  # noqa: F401

import hashlib
import json
import itertools
import os
import shutil
from pathlib import Path

import h5py

from mc import ih5lib, parallel, treeexp
from mc.impl import h5ops, ih5

worker_init = treeexp.worker_init
expand_fast = ih5lib.expand_fast
init_key_fast = ih5lib.init_key_fast


def _viol(kind, detail, cfg_name, hist, upd=None):
    return {
        "sig": {"kind": kind, "update": [o[0] for o in upd] if upd else None},
        "what": detail,
        "input": {"cfg": cfg_name, "history": hist, "update": upd, "seed": env.seed()},
    }


def skeleton_scan(rec):
    """Own scan: path -> (kind, sorted attr names)."""
    out = {"/": ("group", tuple(sorted(rec.attrs.keys())))}

    def vis(name, o):
        out["/" + name] = ("group" if h5ops.is_group(o) else "dataset", tuple(sorted(o.attrs.keys())))

    rec.visititems(vis)
    return out


def all_empty(rec):
    bad = []

    def isempty(v):
        return isinstance(v, h5py.Empty)

    for k, v in rec.attrs.items():
        if not isempty(v):
            bad.append(f"/@{k}")

    def vis(name, o):
        if not h5ops.is_group(o) and not isempty(o[()]):
            bad.append(name)
        for k, v in o.attrs.items():
            if not isempty(v):
                bad.append(f"{name}@{k}")

    rec.visititems(vis)
    return bad


def manifest_check(rec):
    """After a commit: manifest on disk matches the user block link and describes the skeleton.

    Also after a commit request that is *refused* (nothing to commit): the manifest must still match.
    """
    err = _manifest_check(rec)
    if err:
        return err
    try:
        rec.commit_patch()
        return "a second commit_patch() without an open patch was not refused"
    except Exception:
        pass
    err = _manifest_check(rec)
    if err:
        return "after a refused commit_patch(): " + err
    return None


def _manifest_check(rec):
    from metador_core.ih5.skeleton import IH5Skeleton

    cfile = Path(rec.ih5_files[-1])
    mfile = Path(str(cfile) + "mf.json")
    if not mfile.is_file():
        return "no manifest file next to the committed container"
    raw = mfile.read_bytes()
    ub = rec.ih5_meta[-1]
    ext = ub.ub_exts.get("ih5mf_v01")
    if not ext:
        return "user block of committed container has no manifest extension"
    hs = str(ext["manifest_hashsum"])
    alg, _, hx = hs.partition(":")
    if hashlib.new(alg, raw).hexdigest() != hx:
        return "manifest file bytes do not match manifest_hashsum in the user block"
    doc = json.loads(raw)
    if str(doc["manifest_uuid"]) != str(ext["manifest_uuid"]):
        return "manifest uuid differs from the one recorded in the user block"
    skel = doc["skeleton"]
    own = skeleton_scan(rec)
    got = {p: (v["node_type"], tuple(sorted(v["attrs"].keys()))) for p, v in skel.items()}
    if got != own:
        return f"manifest skeleton does not describe the record: only in manifest {sorted(set(got) - set(own))[:4]}, only in record {sorted(set(own) - set(got))[:4]}, differing {[p for p in got if p in own and got[p] != own[p]][:4]}"
    if rec.manifest.skeleton != IH5Skeleton.for_record(rec):
        return "manifest.skeleton != IH5Skeleton.for_record(record)"
    return None


def update_ops(cfg):
    return [o for o in cfg["ops"] if o[0] in ("set", "grp", "del", "sa", "da", "rg")]


def check_stub(task):
    """Returns (violation | None, checks, updates compared)."""
    cfg_name, hist, udepth = task[0], task[1], task[2]
    only = task[3] if len(task) > 3 else None
    cfg = treeexp.CFGS[cfg_name]
    cls = ih5.record_class("mf")
    d = env.fresh_dir("r")
    sd = env.fresh_dir("s")
    nck = nup = 0
    rec = stub = None
    V = lambda k, det, u=None: (_viol(k, det, cfg_name, hist, u), nck, nup)  # noqa: E731
    try:
        # build with a manifest check after every commit
        rec = cls(os.path.join(d, "rec"), "w")
        n = 0
        for op in hist:
            n += 1
            if op[0] == "B":
                rec.commit_patch()
                nck += 1
                err = manifest_check(rec)
                if err:
                    return V("manifest-after-commit", err)
                rec.create_patch()
            else:
                treeexp._apply(rec, list(op), n, True)
        rec.commit_patch()
        nck += 1
        err = manifest_check(rec)
        if err:
            return V("manifest-after-commit", err)
        real_skel = skeleton_scan(rec)
        real_files = [Path(p) for p in rec.ih5_files]
        newest_manifest = Path(str(real_files[-1]) + "mf.json")
        rec.close()
        rec = None
        # --- the stub
        try:
            stub = cls.create_stub(Path(sd) / "stub", newest_manifest)
        except Exception as e:
            return V("create-stub-failed", f"create_stub raised {type(e).__name__}: {e}")
        nck += 1
        sk = skeleton_scan(stub)
        if sk != real_skel:
            return V("stub-skeleton", f"stub skeleton differs: only stub {sorted(set(sk) - set(real_skel))[:4]}, only real {sorted(set(real_skel) - set(sk))[:4]}, differing {[p for p in sk if p in real_skel and sk[p] != real_skel[p]][:4]}")
        bad = all_empty(stub)
        if bad:
            return V("stub-has-data", f"stub contains values at {bad[:4]}")
        if stub._has_writable:
            return V("stub-writable", "stub returned by create_stub is writable")
        try:
            stub.merge_files(Path(sd) / "mrg")
            return V("stub-merge-not-refused", "merge_files on a stub succeeded")
        except Exception:
            pass
        stub.close()
        stub = None
        stub_files = sorted(os.listdir(sd))
        # --- updates
        ops = update_ops(cfg)
        ups = [[o] for o in ops]
        if udepth >= 2:
            ups += [[a, b] for a in ops for b in ops]
        if udepth >= 3:
            ups += [[a, b, c] for a in ops for b in ops for c in ops]
        if only is not None:
            ups = [only]
        for up in ups:
            wd = env.fresh_dir("w")
            try:
                sdir = os.path.join(wd, "stub")
                ddir = os.path.join(wd, "direct")
                vdir = os.path.join(wd, "via")
                os.makedirs(sdir), os.makedirs(ddir), os.makedirs(vdir)
                for f in stub_files:
                    shutil.copy(os.path.join(sd, f), sdir)
                for f in os.listdir(d):
                    shutil.copy(os.path.join(d, f), ddir)
                    shutil.copy(os.path.join(d, f), vdir)
                # (b) directly
                dr = cls(os.path.join(ddir, "rec"), "r+")
                res_d = []
                k = 5000
                for o in up:
                    k += 1
                    res_d.append(treeexp._apply(dr, list(o), k, True).split(":")[0])
                dr.commit_patch()
                view_d = ih5lib.dump(dr)
                nck += 1
                err = manifest_check(dr)
                dr.close()
                if err:
                    return V("manifest-after-commit", err, up)
                # (a) via stub
                sr = cls(os.path.join(sdir, "stub"), "r+")
                res_s = []
                k = 5000
                for o in up:
                    k += 1
                    res_s.append(treeexp._apply(sr, list(o), k, True).split(":")[0])
                if res_s != res_d:
                    sr.close(commit=False)
                    return V("update-outcome-differs", f"update steps on stub {res_s} vs on real record {res_d}", up)
                sr.commit_patch()
                pfile = Path(sr.ih5_files[-1])
                try:
                    sr.merge_files(Path(wd) / "mrg2")
                    sr.close()
                    return V("stub-merge-not-refused", "merge_files on stub+patch succeeded", up)
                except Exception:
                    pass
                sr.close()
                nup += 1
                shutil.copy(pfile, vdir)
                shutil.copy(str(pfile) + "mf.json", vdir)
                flist = [Path(vdir) / f.name for f in real_files] + [Path(vdir) / pfile.name]
                nck += 1
                try:
                    vr = cls(flist, "r")
                except Exception as e:
                    return V("stub-patch-refused", f"patch made on the stub is not accepted by the real record: {type(e).__name__}: {e}", up)
                try:
                    if ih5lib.dump(vr) != view_d:
                        return V("stub-patch-view", "real record + stub-made patch differs from the directly patched record", up)
                    if len(vr.ih5_files) != len(real_files) + 1:
                        return V("stub-patch-files", "unexpected container count", up)
                finally:
                    vr.close()
            finally:
                env.rmtree(wd)
        return None, nck, nup
    finally:
        for r in (rec, stub):
            if r is not None:
                ih5.discard(r)
        env.rmtree(d)
        env.rmtree(sd)


def check_exts(_):
    """manifest_exts persist until overridden (chain X, -, Y, -)."""
    cls = ih5.record_class("mf")
    d = env.fresh_dir("e")
    try:
        rec = cls(os.path.join(d, "rec"), "w")
        rec["/a"] = 1
        seq = [({"x": 1}, {"x": 1}), (None, {"x": 1}), ({"y": [2]}, {"y": [2]}), (None, {"y": [2]}), ({}, {})]
        for i, (given, expected) in enumerate(seq):
            if given is None:
                rec.commit_patch()
            else:
                rec.commit_patch(manifest_exts=given)
            if rec.manifest.manifest_exts != expected:
                return _viol("manifest-exts", f"after commit #{i} with exts={given}: manifest_exts={rec.manifest.manifest_exts}, expected {expected}", "-", [], None)
            err = manifest_check(rec)
            if err:
                return _viol("manifest-after-commit", err, "-", [], None)
            # same from disk
            r2 = cls(os.path.join(d, "rec"), "r")
            try:
                if r2.manifest.manifest_exts != expected:
                    return _viol("manifest-exts", f"reopened after commit #{i}: manifest_exts={r2.manifest.manifest_exts}, expected {expected}", "-", [], None)
            finally:
                r2.close()
            rec.create_patch()
            rec[f"/n{i}"] = i
        rec.close()
        return None
    finally:
        env.rmtree(d)


EXT_ROUTES = ("direct", "resume", "stub")


def ext_tasks(maxlen):
    steps = [(r, g) for r in EXT_ROUTES for g in (False, True)]
    out = []
    for base_given in (False, True):
        for n in range(1, maxlen + 1):
            for seq in itertools.product(steps, repeat=n):
                out.append((base_given, [list(x) for x in seq]))
    return out


def check_exts_routes(task):
    """manifest_exts persist until overridden - whatever way the next patch is made:
    direct  = open r+, write, commit;  resume = open r+, write, close(commit=False), open r+ (continues the patch), commit;
    stub    = stub from the newest manifest, patch on the stub, patch container + its manifest put next to the real containers.
    Each step either passes new extensions (which then must be reported) or none (the previous ones must still be reported)."""
    base_given, seq = task
    cls = ih5.record_class("mf")
    d = env.fresh_dir("x")
    sd = env.fresh_dir("xs")
    inp = {"cfg": "exts", "history": [], "update": None, "seed": env.seed(), "ext_task": [base_given, seq]}
    V = lambda det: {"sig": {"kind": "manifest-exts", "routes": "+".join(r for r, _ in seq), "lost_at": seq[len(files) - 2][0] if len(files) > 1 else "base"}, "what": det, "input": inp}  # noqa: E731
    files = []
    try:
        rec = cls(os.path.join(d, "rec"), "w")
        rec["/a"] = 1
        expected = {}
        if base_given:
            expected = {"base": [0]}
            rec.commit_patch(manifest_exts=dict(expected))
        else:
            rec.commit_patch()
        files = [Path(p) for p in rec.ih5_files]
        rec.close()
        for i, (route, given) in enumerate(seq):
            kw = {}
            if given:
                expected = {"step": i, "route": route}
                kw = {"manifest_exts": dict(expected)}
            if route in ("direct", "resume"):
                r = cls(list(files), "r+")
                r[f"/n{i}"] = i
                if route == "resume":
                    r.close(commit=False)
                    nf = [Path(p) for p in sorted(os.listdir(d)) if p.endswith(".ih5")]
                    newest = [Path(d) / p for p in nf if (Path(d) / p) not in files]
                    r = cls(list(files) + newest, "r+")
                r.commit_patch(**kw)
                files = [Path(p) for p in r.ih5_files]
                r.close()
            else:
                newest_manifest = Path(str(files[-1]) + "mf.json")
                sdir = os.path.join(sd, f"s{i}")
                os.makedirs(sdir)
                st = cls.create_stub(Path(sdir) / "stub", newest_manifest)
                st.create_patch()
                st[f"/n{i}"] = i
                st.commit_patch(**kw)
                pfile = Path(st.ih5_files[-1])
                st.close()
                tgt = Path(d) / f"viastub{i}.p.ih5"
                shutil.copy(pfile, tgt)
                shutil.copy(str(pfile) + "mf.json", str(tgt) + "mf.json")
                files = files + [tgt]
            try:
                r2 = cls(list(files), "r")
            except Exception as e:
                return {"sig": {"kind": "exts-route-broken", "routes": "+".join(r for r, _ in seq)}, "what": f"after step {i} ({route}) the record does not open: {type(e).__name__}: {e}", "input": inp}
            try:
                got = r2.manifest.manifest_exts
                if got != expected:
                    return V(f"after step {i} ({route}, extensions {'given' if given else 'not given'}): manifest_exts = {got}, expected {expected} (steps {seq}, base extensions {'given' if base_given else 'none'})")
            finally:
                r2.close()
        return None
    finally:
        env.rmtree(d)
        env.rmtree(sd)


def _cfgs(seed):
    return {
        "M": treeexp.make_cfg("M", seed, "narrow", copies=False, moves=False, max_containers=3, kind="mf", attr_keys=2),
        # the same alphabet spelled with another name set (for the default seed: siblings a / ab / abc, one a string prefix of the other)
        "MP": treeexp.make_cfg("MP", seed + 1, "narrow", copies=False, moves=False, max_containers=3, kind="mf", attr_keys=2),
    }


def run(tier, seed):
    q = tier == "quick"
    cfgs = _cfgs(seed)
    depth = 3 if q else 4
    violations = []
    nck = nup = 0
    with parallel.make_pool("mc.props.c10", {"cfgs": cfgs}) as pool:
        hs, tr = ih5lib.gen_states(pool, "M", depth)
        tasks = []
        for h in hs:
            if q:
                ud = 2 if len(h) <= 1 else 1
            else:
                ud = 2 if len(h) <= 3 else 1
            tasks.append(("M", h, ud))
        hsp, trp = ih5lib.gen_states(pool, "MP", depth)
        tr += trp
        tasks += [("MP", h, 1) for h in hsp]
        res = pool.map("check_stub", tasks, chunk=1, item_deadline=900)
        for t, r in zip(tasks, res):
            if r == parallel.HANG:
                violations.append(_viol("hang", "hung", t[0], t[1]))
                continue
            v, a, b = r
            nck += a
            nup += b
            if v:
                violations.append(v)
        ve = pool.map("check_exts", [0])[0]
        if ve:
            violations.append(ve)
        etasks = ext_tasks(2 if q else 3)
        for t, v in zip(etasks, pool.map("check_exts_routes", etasks, chunk=4, item_deadline=300)):
            if v == parallel.HANG:
                violations.append(_viol("hang", "hung", "-", [], None))
            elif v is not None:
                violations.append(v)
    cov = {
        "states": len(hs) + len(hsp),
        "transitions": tr + nup,
        "traces_validated_against_impl": nck,
        "updates_compared": nup,
        "depth": depth,
        "exhaustive": True,
        "samples": [{"history": hs[len(hs) // 2], "update": update_ops(cfgs["M"])[0]}, {"history": hs[-1]}],
        "rule": f"every deduplicated IH5MFRecord state of the narrow alphabet up to depth {depth} (<=3 containers), in two spellings (second one with prefix-related sibling names); stub from newest manifest; "
        "every update history of existence-based ops (set/grp/del/setattr/delattr/require_group) of length 1"
        + (" (2 for records of <=1 op)" if q else " (2 for records of <=3 ops)")
        + " applied via stub and directly; manifest link/skeleton check after every commit; manifest_exts chain X,-,Y,-,{}; manifest_exts through every sequence of <= " + ("2" if q else "3") + " patches made directly / by resuming an uncommitted patch in a new session / via a stub, each with or without new extensions",
    }
    return {
        "level": "model_checking",
        "coverage": cov,
        "violations": violations,
        "assumptions": ["directly patched record is the reference for the stub-patched one (differential)", "skeleton = paths, node kinds, attribute names"],
    }


def replay(data):
    inp = data["input"]
    treeexp.worker_init(_cfgs(inp.get("seed", 0)))
    if inp.get("ext_task"):
        return check_exts_routes((inp["ext_task"][0], [list(x) for x in inp["ext_task"][1]]))
    if inp["cfg"] == "-":
        return check_exts(0)
    up = inp.get("update")
    v, _, _ = check_stub((inp["cfg"] if inp["cfg"] in ("M", "MP") else "M", [list(o) for o in inp["history"]], 1, [list(o) for o in up] if up else []))
    return v
