"""C06 - container TOC and attached metadata stay in exact one-to-one sync.

BFS over container histories on MetadorContainer (drivers h5py.File and IH5Record); after every op,
successful or failed: independent raw scan invariants + attached objects == reference model +
in-memory index of the live container == index rebuilt by a fresh MetadorContainer on the same data.
"""
from __future__ import annotations

import mc.env as env  # noqa: F401

import json
import time

from mc import contexp, parallel
from mc.contexp import check

SCHEMAS = ["vt.aa", "vt.bb", "vt.cc", "core.file"]


# unusual but legal node names: '=' (separator inside stored-object names), the reserved prefix as infix / suffix,
# a name that is a string prefix of its sibling (IH5 keys are limited to printable ASCII without blank and '@' by design)
ODD_NAMES = ("T=300K", "raw_metador_export", "x.metador_", "T=300K_b", "~=1")


def names_for(cfg_name):
    return ODD_NAMES if str(cfg_name).endswith("odd") else None


def make_cfg(name, seed=0, max_dev=1, checks=("toc_sync", "toc_vs_model", "inmem_vs_rebuilt"), schemas=SCHEMAS, envs=("old",), names=None):
    pool = [("g", "d", "e", "h", "f"), ("grp", "ds", "e2", "hh", "ff"), ("a", "a", "ab", "b", "c"), ("x.y", "x", "y", "z", "x_")]
    g, d, e, h, f = names or pool[seed % len(pool)]
    G, GD, E, H, GF = f"/{g}", f"/{g}/{d}", f"/{e}", f"/{h}", f"/{g}/{f}"
    ops = [["mkds", E], ["mkds", GD], ["mkgrp", G], ["del", G], ["del", GD], ["del", E], ["del", H]]
    for n in ("/", G, GD, E):
        for s in schemas:
            ops.append(["attach", n, s])
    # one kept `node.meta` object used twice
    ops.append(["attachheld", E, schemas[0]])
    ops.append(["attachheld", G, schemas[1]])
    for n in ("/", G, GD, E):
        for s in schemas[:2]:
            ops.append(["detach", n, s])
    for s_, d_ in ((E, H), (GD, GF), (G, H), (E, GF)):
        ops.append(["copy", s_, d_, False])
        ops.append(["copy", s_, d_, True])
    # the whole container copied into a new group of itself; a source given as node object instead of a path
    ops += [["copy", "/", H, False], ["copy", "/", H, True], ["copyobj", G, H], ["copyobj", E, GF]]
    for s_, d_ in ((E, H), (GD, GF), (G, H), (GD, H), (H, E), (GF, GD)):  # the last two: back to a path the node had before
        ops.append(["move", s_, d_])
    ops += [["R"], ["B"]]
    return {"name": name, "ops": ops, "max_dev": max_dev, "checks": list(checks), "envs": list(envs), "paths": [G, GD, E, H, GF]}


# ----------------------------------------------------------------------------------------- checks


@check("toc_sync")
def toc_sync(cont, model, cfg, ctx):
    sc = contexp.scan_raw(cont.raw)
    P = lambda k, w: {"kind": "toc-" + k, "what": w}  # noqa: E731
    objs = sc["objects"]
    # bookkeeping lives in /metador_container and in the metador_meta_* directories next to the nodes - nowhere else
    for pth in sc["nodes"]:
        segs = pth.strip("/").split("/")
        for i, sg in enumerate(segs):
            if sg.startswith("metador_") and not sg.startswith("metador_meta_") and not (i == 0 and sg == "metador_container"):
                return P("stray-bookkeeping", f"reserved-name entity {pth} outside the documented places")
            if sg.startswith("metador_"):
                break
    for node, exists, ep, uuid, path in objs:
        if uuid is None:
            return P("foreign-entry", f"unexpected entry {path} in a metadata directory")
        if not exists:
            return P("orphan-metadata", f"metadata object {path} belongs to node {node} which does not exist (as that kind)")
    for p, node, exists, nchild, kind in sc["metadirs"]:
        if kind != "G":
            return P("metadir-not-group", f"{p} is not a group")
        if nchild == 0:
            return P("empty-metadir", f"empty metadata directory {p} left behind")
        if not exists:
            return P("orphan-metadata", f"metadata directory {p} for missing node {node}")
    uu = [u for (_, _, _, u, _) in objs]
    if len(set(uu)) != len(uu):
        return P("uuid-dup", "two metadata objects share a UUID")
    omap = {(ep, u): path for (_, _, ep, u, path) in objs}
    lmap = {(ep, u): tgt for (ep, u, tgt, _) in sc["links"]}
    for k in omap:
        if k not in lmap:
            return P("object-without-link", f"metadata object {omap[k]} has no TOC link")
    for k in lmap:
        if k not in omap:
            return P("dangling-link", f"TOC link {k[0]}/{k[1]} -> {lmap[k]} has no metadata object with that schema and UUID")
        if lmap[k] != omap[k]:
            return P("link-target", f"TOC link {k[0]}/{k[1]} points to {lmap[k]}, object is at {omap[k]}")
    if len(sc["links"]) != len(lmap):
        return P("link-dup", "duplicate link entries")
    for ep, cnt in sc["linkgroups"].items():
        if cnt == 0:
            return P("empty-link-group", f"empty group links/{ep} left behind")
    used = {ep for (ep, _) in omap}
    if set(sc["schemas"]) != used:
        return P("schemas-mismatch", f"schemas/ lists {sorted(sc['schemas'])}, schemas in use {sorted(used)}")
    for ep, entries in sc["schemas"].items():
        if not {"jsonschema.json", "compat"} <= entries:
            return P("schema-record-incomplete", f"schemas/{ep} contains {sorted(entries)}")
    provided = {}
    for pk, raw in sc["packages"].items():
        doc = json.loads(raw)
        eps = set()
        for ref in doc.get("plugins", {}).get("schema", []):
            eps.add(f"{ref['name']}__{'.'.join(map(str, ref['version']))}")
        provided[pk] = eps
        if not (eps & used):
            return P("unused-package", f"package record {pk} provides no schema in use")
    for ep in used:
        n = sum(1 for pk in provided if ep in provided[pk])
        if n == 0:
            return P("schema-without-package", f"no package record provides used schema {ep}")
    if not objs:
        for flag, nm in (("has_links_dir", "links"), ("has_schemas_dir", "schemas"), ("has_packages_dir", "packages")):
            if sc[flag]:
                return P("empty-bookkeeping", f"no metadata in container but {nm}/ group exists")
    else:
        if sc["has_packages_dir"] and not sc["packages"]:
            return P("empty-bookkeeping", "packages/ group is empty")
    return None


@check("toc_vs_model")
def toc_vs_model(cont, model, cfg, ctx):
    sc = contexp.scan_raw(cont.raw)
    got = set()
    for node, exists, ep, uuid, path in sc["objects"]:
        got.add((node, ep.split("__")[0]))
    exp = set(model.meta.keys())
    if got != exp:
        return {"kind": "attached-set", "what": f"attached objects {sorted(got - exp)} unexpected, {sorted(exp - got)} missing (after {'successful' if ctx['status']['impl']=='ok' else 'failed'} op)"}
    return None


_SENT = object()


def _index(mc):
    toc = mc.metador
    out = {}
    for path, name in (
        (("_links", "_toc_path"), "links"),
        (("_schemas", "_schemas"), "schemas"),
        (("_schemas", "_parents"), "parents"),
        (("_schemas", "_children"), "children"),
        (("_schemas", "_used"), "used"),
        (("_packages", "_pkginfos"), "pkginfos"),
        (("_packages", "_providers"), "providers"),
    ):
        o = toc
        for a in path:
            o = getattr(o, a, _SENT)
            if o is _SENT:
                break
        if o is _SENT:
            continue
        if name == "used":
            # a package without used schemas carries no information (semantic equality, not layout)
            o = {k: v for k, v in o.items() if v}
        out[name] = _norm(o)
    return out


def _norm(o):
    if isinstance(o, dict):
        return tuple(sorted(((_norm(k), _norm(v)) for k, v in o.items()), key=repr))
    if isinstance(o, (set, frozenset)):
        return tuple(sorted((_norm(x) for x in o), key=repr))
    if isinstance(o, (list, tuple)):
        return tuple(_norm(x) for x in o)
    if hasattr(o, "json") and callable(o.json):
        return o.json()
    return repr(o) if not isinstance(o, (str, int, float, type(None))) else o


@check("inmem_vs_rebuilt")
def inmem_vs_rebuilt(cont, model, cfg, ctx):
    from metador_core.container import MetadorContainer

    live = _index(cont.mc)
    fresh = _index(MetadorContainer(cont.raw))
    for k in live:
        if k in fresh and live[k] != fresh[k]:
            return {"kind": "index-" + k, "what": f"in-memory index '{k}' maintained incrementally differs from the one rebuilt from disk: live={str(live[k])[:300]} rebuilt={str(fresh[k])[:300]}"}
    # public answers
    a = sorted(map(str, cont.mc.metador.schemas.keys()))
    b = sorted(map(str, MetadorContainer(cont.raw).metador.schemas.keys()))
    if a != b:
        return {"kind": "index-public", "what": f"schemas.keys() live {a} vs rebuilt {b}"}
    return None


# ----------------------------------------------------------------------------------------- driver


def starts(cfg):
    G, GD, E, H, GF = cfg["paths"]
    return {
        "rich": [["mkgrp", G], ["mkds", GD], ["mkds", E], ["attach", GD, "vt.bb"], ["attach", G, "vt.aa"], ["attach", E, "vt.cc"], ["attach", E, "vt.aa"]],
        "nested": [["mkds", GD], ["attach", "/", "vt.cc"], ["attach", GD, "vt.aa"], ["attach", GD, "core.file"], ["copy", "/" + G.strip("/"), H, False]],
        # several used descendants (child, grandchild, sibling) of an ancestor schema that is never attached itself
        "descendants": [["mkgrp", G], ["mkds", GD], ["mkds", E], ["attach", GD, "vt.bb"], ["attach", E, "vt.cc"], ["attach", G, "vt.dd"]],
    }


def run(tier, seed):
    q = tier == "quick"
    cfg = make_cfg("c06", seed, max_dev=1 if q else 2)
    depth = {"h5": 3 if q else 4, "ih5": 3 if q else 4}
    sdepth = 2 if q else 3
    budget = 600 if q else 2400
    t0 = time.time()
    fam = {}
    violations = []
    samples = []
    cfg_odd = make_cfg("c06odd", seed, max_dev=1, names=ODD_NAMES)
    with parallel.make_pool("mc.contexp", {"cfgs": {"c06": cfg, "c06odd": cfg_odd}, "envs": ["old"], "check_modules": ["mc.props.c06"]}) as pool:
        for drv in ("h5", "ih5"):
            # the same alphabet over unusual but legal node names
            r = contexp.bfs(pool, "c06odd", cfg_odd, drv, 2 if q else 3, budget_s=budget, t0=t0)
            violations += r.pop("violations")
            r.pop("samples")
            fam[drv + "-odd-names"] = r
        for drv in ("h5", "ih5"):
            r = contexp.bfs(pool, "c06", cfg, drv, depth[drv], budget_s=budget, t0=t0)
            violations += r.pop("violations")
            samples += [{"driver": drv, "history": h} for h in r.pop("samples")[:1]]
            fam[drv] = r
            for sname, st in starts(cfg).items():
                # (the "descendants" start mainly serves C07/C20; here one level less)
                r = contexp.bfs(pool, "c06", cfg, drv, sdepth if sname != "descendants" else sdepth - 1, budget_s=budget, t0=t0, start=st)
                violations += r.pop("violations")
                samples += [{"driver": drv, "history": h} for h in r.pop("samples")[:1]]
                fam[f"{drv}-from-{sname}"] = r
    cov = {
        "states": sum(f["states"] for f in fam.values()),
        "transitions": sum(f["transitions"] for f in fam.values()),
        "traces_validated_against_impl": sum(f["transitions"] for f in fam.values()),
        "families": fam,
        "alphabet": len(cfg["ops"]),
        "max_reopen_or_boundary": cfg["max_dev"],
        "exhaustive": not any(f["capped"] for f in fam.values()),
        "samples": samples or [{"history": []}],
        "rule": "all histories over mkds/mkgrp/del/attach/detach/copy(with,without meta)/move/R/B on 4 nodes x 4 schemas up to the completed depth, "
        "from the empty container and from two populated start states, "
        "deduplicated on the raw container dump (uuids indexed, integers erased); after every op (ok or failed): independent raw scan invariants, "
        "attached-object set == reference model, live in-memory index == index rebuilt by a fresh MetadorContainer",
    }
    return {
        "level": "model_checking",
        "coverage": cov,
        "violations": violations,
        "assumptions": ["documented container layout (container/__init__.py) is what the independent scan reads", "moving a node into its own subtree excluded (property text)"],
    }


def replay(data):
    c = data["config"]
    cfg = make_cfg(c["cfg"], env.seed(), max_dev=9, checks=c["checks"], envs=c.get("envs", ["old"]), names=names_for(c["cfg"]))
    contexp.worker_init({c["cfg"]: cfg}, envs=c.get("envs", ["old"]), check_modules=["mc.props.c06"])
    return contexp.check_history((cfg, c["driver"], data["history"]))
