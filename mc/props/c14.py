"""C14 - merging partial metadata is a lossless, associative, non-mutating monoid.

Bounded-exhaustive: for every model class of a small grammar (optional primitives, lists, sets,
nested / optional / listed / recursive models, a nested inheritance chain, and - without the
associativity claim - unrelated sibling classes), for both partial factories, the FULL cross
product of per-field value corpora is enumerated; every instance is obtained in every construction
mode the library offers; ALL pairs and ALL triples are merged through the real code with and
without overwrite permission and compared, as outcomes, with a 20-line reference merge on plain
dicts and with each other (identity, associativity, n-ary fold), while deep snapshots of the
operands are compared before/after.  Complete objects go to their partial and back; `harvest()` is
folded over all ordered triples of small harvesters / sidecar files.

Helpers: mc/c14_model.py (grammar, corpora, construction, reference), mc/c14_check.py (laws, workers).
"""
from __future__ import annotations

import mc.env as env  # noqa: F401  (must be first: numpy shim)

import json
import time

from mc import c14_check as C
from mc import c14_model as M
from mc import parallel

FAST = ("kw", "parse_obj", "parse_json", "to_partial_dict", "to_partial_dict_ii", "to_partial", "cast", "complete")
SLOW = ("parse_yaml", "harvester")  # 1-3 ms per construction: enumerated over a smaller (shrunk) space


def bounds(tier):
    """Instance caps per class: full space, space for the slow modes, for all-mode-combination triples
    (fast / with slow modes), for harvest().  Installed schemas (45 fields, 30 ms per harvester run) get
    smaller caps than the generated classes."""
    if tier == "quick":
        return {
            "generated": dict(cap=14, cap_slow=6, cap_mixed=3, cap_slow_mixed=0, cap_harvest=5),
            "installed": dict(cap=12, cap_slow=3, cap_mixed=2, cap_slow_mixed=0, cap_harvest=3),
        }
    return {
        "generated": dict(cap=36, cap_slow=10, cap_mixed=5, cap_slow_mixed=2, cap_harvest=8),
        "installed": dict(cap=27, cap_slow=5, cap_mixed=4, cap_slow_mixed=0, cap_harvest=4),
    }


# -------------------------------------------------------------------------------------------
# extra worker entry points that need the FAST/SLOW split (kept here, next to the bounds)
# -------------------------------------------------------------------------------------------


def worker_init(tier="quick", seed=0):
    C.worker_init(tier, seed)


def work_single(item):
    return C.work_single(item)


def work_pairs_modes(item):
    """Pairs for one x over the space of `cap`, restricted to a mode-pair family.

    family "fast": both modes fast; "slow": at least one slow mode.
    """
    F, cid, cap, xi, family = item
    sp = C.space(F, cid, cap)
    acc = C._Acc()
    sx = sp[xi]
    modes = M.modes_for(F)
    for sy in sp:
        for mx in modes:
            if not M.applicable(mx, F, cid, sx):
                continue
            for my in modes:
                slow = mx in SLOW or my in SLOW
                if slow != (family == "slow") or not M.applicable(my, F, cid, sy):
                    continue
                for ow in (False, True):
                    acc.run(("pair", F, cid, (sx, sy), (mx, my), ow), C.check_pair, F, cid, sx, sy, mx, my, ow)
    return acc.result()


def work_triples(item):
    return C.work_triples(item)


def work_triples_mixed(item):
    """All mode combinations for one x over a small space; family as above."""
    F, cid, cap, xi, family, ref_cap = item
    import itertools

    sp = C.space(F, cid, cap)
    ref = {json.dumps(s, sort_keys=True): i for i, s in enumerate(C.space(F, cid, ref_cap))}
    n_ref = len(ref)
    idx = [ref[json.dumps(s, sort_keys=True)] for s in sp]
    acc = C._Acc()
    sx = sp[xi]
    modes = M.modes_for(F)
    bitmap = 0
    ok = {(m, i): M.applicable(m, F, cid, s) for m in modes for i, s in enumerate(sp)}
    for yi, sy in enumerate(sp):
        for zi, sz in enumerate(sp):
            did = False
            for mx, my, mz in itertools.product(modes, repeat=3):
                slow = mx in SLOW or my in SLOW or mz in SLOW
                if slow != (family == "slow"):
                    continue
                if not (ok[mx, xi] and ok[my, yi] and ok[mz, zi]):
                    continue
                for ow in (False, True):
                    acc.run(("triple", F, cid, (sx, sy, sz), (mx, my, mz), ow), C.check_triple, F, cid, sx, sy, sz, mx, my, mz, ow)
                    did = True
            if did and C._nontrivial(sx, sy, sz):
                bitmap |= 1 << (idx[yi] * n_ref + idx[zi])
    return acc.result(bitmap=bitmap, x_ref=idx[xi])


def work_harvest(item):
    return C.work_harvest(item)


def work_minimize(item):
    return C.work_minimize(item)


# -------------------------------------------------------------------------------------------


def _violation(case, finding, info):
    sig = {
        "law": finding["law"],
        "field_kind": finding["field_kind"],
        "expected": finding["expected"],
        "observed": finding["observed"],
        "modes": info["modes"],
        "factory": info["factory"],
    }
    nc = C.nested_classes(case["specs"])
    if nc:
        sig["nested"] = nc
    return {"sig": sig, "input": case, "what": finding["what"], "config": {"driver": "c14"}}


def cross_class_cases(seed):
    """Merge results handed on to a RELATED partial class (child schema), top level.

    x, y: partials of a parent class P; z: partial of a child class Q (Q <- P).  For all x, y (and z):
    Q.cast(x.y) keeps every value of x.y;  z.(x.y) == (z.x).y == reference;  operands unchanged.
    Both factories (plain BaseModel + PartialFactory, MetadataSchema + .Partial).
    """
    import itertools

    viol = []
    n = 0
    a_vals = [M.MISSING, 0, 1]
    k_vals = [M.MISSING, [], [1]]
    b_vals = [M.MISSING, 0, 2]

    def ref(d1, d2):
        out = dict(d1)
        for key, v in d2.items():
            if key not in out:
                out[key] = v
            elif isinstance(v, list):
                out[key] = out[key] + v
            elif out[key] == v:
                raise KeyError("ambiguous")  # equal scalar twice: the library may raise or keep it (both accepted)
            else:
                raise ValueError("conflict")
        return out

    for factory, pc, qc in (("plain", "M", "M2"), ("plain", "M", "M3"), ("schema", "M", "M2")):
        try:
            P, Q = M.partial_class(factory, pc), M.partial_class(factory, qc)
        except Exception:
            continue
        specs = [{k: v for k, v in (("a", a), ("k", kk)) if v is not M.MISSING} for a in a_vals for kk in k_vals]
        zspecs = [{k: v for k, v in (("a", a), ("b", b)) if v is not M.MISSING} for a in (M.MISSING, 1) for b in b_vals]
        for xs, ys in itertools.product(specs, specs):
            n += 1
            mk = lambda cls, sp: cls.parse_obj({k: (list(v) if isinstance(v, list) else v) for k, v in sp.items()})  # noqa: E731
            try:
                exp = ref(xs, ys)
            except ValueError:
                exp = None
            except KeyError:
                continue
            x, y = mk(P, xs), mk(P, ys)
            try:
                r = x.merge_with(y)
            except ValueError:
                r = None
            if (r is None) != (exp is None):
                continue  # plain same-class merge is judged by the main families
            if r is None:
                continue
            sig0 = {"law": "cast-of-merge-result", "factory": factory, "classes": f"{pc}->{qc}"}
            try:
                rq = Q.cast(r)
                got = M.observe(rq)
            except Exception as ex:
                viol.append({"sig": dict(sig0, observed="error:" + type(ex).__name__), "input": {"kind": "xclass", "x": xs, "y": ys}, "what": f"{qc}.Partial.cast(x.y) raised {type(ex).__name__}: {ex}", "config": {"driver": "c14"}})
                continue
            if M.canon(got) != M.canon(M.observe(r)) or M.canon(got) != M.canon(exp):
                viol.append({"sig": dict(sig0, observed="value-lost"), "input": {"kind": "xclass", "x": xs, "y": ys}, "what": f"x.y = {M.observe(r)} (reference {exp}) but cast into the child partial class it is {got}", "config": {"driver": "c14"}})
                continue
            for zs in zspecs:
                n += 1
                z = mk(Q, zs)
                outs = []
                for assoc in ("z.(x.y)", "(z.x).y"):
                    try:
                        if assoc == "z.(x.y)":
                            o = z.merge_with(mk(P, xs).merge_with(mk(P, ys)))
                        else:
                            o = z.merge_with(mk(P, xs)).merge_with(mk(P, ys))
                        outs.append(M.canon(M.observe(o)))
                    except ValueError:
                        outs.append("error")
                    except Exception as ex:
                        outs.append("crash:" + type(ex).__name__)
                try:
                    e3 = M.canon(ref(zs, exp))
                except ValueError:
                    e3 = "error"
                except KeyError:
                    e3 = outs[0]  # ambiguous reference: only associativity is judged
                if outs[0] != outs[1] or outs[0] != e3:
                    viol.append({"sig": dict(sig0, law="associativity-across-classes", observed="differs"), "input": {"kind": "xclass", "x": xs, "y": ys, "z": zs}, "what": f"z.(x.y) = {outs[0]}, (z.x).y = {outs[1]}, reference {e3}", "config": {"driver": "c14"}})
                    break
    # one report per class of failure
    seen, out = set(), []
    for v in viol:
        key = json.dumps(v["sig"], sort_keys=True)
        if key not in seen:
            seen.add(key)
            out.append(v)
    return out, n


def run(tier, seed):
    BB = bounds(tier)
    C.worker_init(tier, seed)
    t0 = time.time()
    table = {}
    jobs = []  # (function name, item, tag)
    for F in M.FACTORIES:
        B = BB["installed" if F == "installed" else "generated"]
        for cid in M.class_ids(F):
            sp = C.space(F, cid, B["cap"])
            n = len(sp)
            n_s = len(C.space(F, cid, B["cap_slow"]))
            n_m = len(C.space(F, cid, B["cap_mixed"]))
            table[f"{F}/{cid}"] = {
                "instances": n,
                "complete_instances": sum(M.is_complete(cid, s) for s in sp),
                "corpus_sizes": {f: len(vs) for f, vs in C.space_corpora(F, cid, B["cap"])},
                "instances_slow_modes": n_s if F in M.SCHEMA_LIKE else 0,
                "instances_mixed_modes": n_m,
            }
            for xi in range(n):
                jobs.append(("work_single", (F, cid, B["cap"], xi), "single"))
                jobs.append(("work_pairs_modes", (F, cid, B["cap"], xi, "fast"), "pairs"))
            for m in FAST:
                for xi in range(n):
                    if M.applicable(m, F, cid, sp[xi]):
                        jobs.append(("work_triples", (F, cid, B["cap"], m, xi, B["cap"]), "triples"))
            for xi in range(n_m):
                jobs.append(("work_triples_mixed", (F, cid, B["cap_mixed"], xi, "fast", B["cap"]), "triples-mixed"))
            if F in M.SCHEMA_LIKE:
                for xi in range(n_s):
                    jobs.append(("work_pairs_modes", (F, cid, B["cap_slow"], xi, "slow"), "pairs"))
                    for m in SLOW:
                        if M.applicable(m, F, cid, C.space(F, cid, B["cap_slow"])[xi]):
                            jobs.append(("work_triples", (F, cid, B["cap_slow"], m, xi, B["cap"]), "triples"))
                if B["cap_slow_mixed"]:
                    for xi in range(len(C.space(F, cid, B["cap_slow_mixed"]))):
                        jobs.append(("work_triples_mixed", (F, cid, B["cap_slow_mixed"], xi, "slow", B["cap"]), "triples-mixed"))
                nh = len([s for s in C.space(F, cid, B["cap_harvest"]) if M.applicable("harvester", F, cid, s)])
                table[f"{F}/{cid}"]["instances_harvest"] = nh
                for xi in range(nh):
                    jobs.append(("work_harvest", (F, cid, B["cap_harvest"], xi), "harvest"))

    counters = {}
    prelim = {}
    bitmaps = {}
    hangs = []
    tot = {"cases": 0, "merges": 0, "ok": 0, "err": 0}
    with parallel.make_pool("mc.props.c14", {"tier": tier, "seed": seed}) as pool:
        # one map per function name, in a fixed order; results come back in item order
        for fname in ("work_single", "work_pairs_modes", "work_triples", "work_triples_mixed", "work_harvest"):
            sel = [(it, tag) for fn, it, tag in jobs if fn == fname]
            if not sel:
                continue
            res = pool.map(fname, [it for it, _ in sel], chunk=1, item_deadline=900)
            for (it, tag), r in zip(sel, res):
                if r == parallel.HANG:
                    hangs.append((fname, it))
                    continue
                c = counters.setdefault(tag, {"cases": 0, "merges": 0, "cpu_s": 0.0})
                c["cases"] += r["cases"]
                c["merges"] += r["merges"]
                c["cpu_s"] = round(c["cpu_s"] + r["cpu_s"], 2)
                for k in tot:
                    tot[k] += r[k]
                if "bitmap" in r:
                    key = (it[0], it[1], r["x_ref"])
                    bitmaps[key] = bitmaps.get(key, 0) | r["bitmap"]
                for k, case, f in r["found"]:
                    prelim.setdefault(tuple(k), (case, f))
        todo = [(list(k), c, f) for k, (c, f) in prelim.items()]
        mins = pool.map("work_minimize", todo, chunk=1, item_deadline=900) if todo else []

    violations = []
    seen = set()
    for r in mins:
        if r == parallel.HANG:
            continue
        case, f, info = r
        v = _violation(case, f, info)
        key = json.dumps(v["sig"], sort_keys=True)
        if key not in seen:
            seen.add(key)
            violations.append(v)
    # the runner reports the first 25 classes in detail: interleave the kinds of failure so that each
    # (law, kind of observation) shows up early; within a kind the enumeration order (small first) is kept
    groups = {}
    for v in violations:
        obs = v["sig"]["observed"]
        kind = "error" if obs.startswith("error") else "missing" if obs == "missing" else "value"
        groups.setdefault((v["sig"]["law"], kind, v["sig"].get("nested", "") != ""), []).append(v)
    violations = []
    while any(groups.values()):
        for g in groups.values():
            if g:
                violations.append(g.pop(0))
    for fname, it in hangs:
        violations.append(
            {
                "sig": {"law": "non-termination", "worker": fname},
                "input": {"kind": "item", "fn": fname, "item": list(it)},
                "what": "the item did not finish within its deadline",
                "config": {"driver": "c14"},
            }
        )

    xc_viol, xc_cases = cross_class_cases(seed)
    violations += xc_viol
    tot["cases"] += xc_cases

    distinct = sum(bin(b).count("1") for b in bitmaps.values())
    samples = _samples(BB["generated"])
    cov = {
        "evaluations": tot["cases"],
        "merges_executed": tot["merges"],
        "distinct_nontrivial": distinct,
        "outcomes": {"value": tot["ok"], "raised": tot["err"]},
        "by_family": counters,
        "classes": table,
        "bounds": BB,
        "modes": {F: M.modes_for(F) for F in M.FACTORIES},
        "preliminary_failure_classes": len(prelim),
        "exhaustive": not hangs,
        "samples": samples,
        "rule": (
            "classes: Prim(Optional int/bool/str/float), Scal(int,str), Scal2(bool,float), Lst(List[int], Optional[List[int]]), "
            "Sets(Set[int], Optional[Set[int]]), Nest(M, Optional[M], List[M]), Rec(recursive), Chain(Optional[M] + Optional[List[M]] holding "
            "M<-M2<-M3), Sib(Optional[M] holding M, M2 and the unrelated sibling MX; associativity not claimed there), "
            "each as plain BaseModel (PartialFactory) and as MetadataSchema (Schema.Partial); plus field subsets of the "
            "installed schemas core.file (FileOpt: contentSize, alternateName, keywords, copyrightYear; FileReq: the four "
            "mandatory fields) and core.imagefile (Image: width/height as nested Pixels, contentSize). Per class the full cross "
            "product of the per-field corpora in `classes[..].corpus_sizes` (priority ordered: missing, falsy, truthy...; "
            "shrunk from the end of the longest corpus until <= cap; never sampled). Every instance in every applicable "
            "construction mode (complete-object modes need all required fields; dict/JSON/YAML/harvester modes need nested "
            "values of the declared class). Enumerated completely: (1) per instance x mode: merge() of 0/1 args, "
            "complete->partial->complete; (2) ALL ordered pairs x ALL mode pairs x allow_overwrite in {F,T} "
            "(pairs containing a YAML/harvester operand over the cap_slow space); (3) ALL ordered triples x {F,T} with all "
            "three operands in the same mode, for every mode (YAML/harvester over cap_slow); (4) ALL triples x ALL mode "
            "combinations over the cap_mixed space (with slow modes: cap_slow_mixed); (5) harvest() over ALL ordered "
            "triples of the cap_harvest space x {3 harvesters, 3 YAML files, file-harvester-file}. "
            "A case = fresh operands built from its spec, executed through merge_with / merge (with the flag and, for "
            "no-overwrite, also without it) + all laws: identity, result = reference merge, associativity (only where the "
            "classes at each nested position form a chain), merge() = fold of merge_with, operands unchanged (deep "
            "snapshot incl. object identities), construction keeps values, complete->partial->complete. distinct_nontrivial = number of DISTINCT "
            "(factory, class, x, y, z) spec triples with at least two non-empty operands that were merged in at least one "
            "mode (bitmap union over all passes, so a triple met in several modes counts once)."
        ),
    }
    return {
        "level": "exploration",
        "coverage": cov,
        "violations": violations,
        "assumptions": [
            "pydantic 1.10 parsing itself is trusted (an operand whose parsed content differs from its spec is a harness error)",
            "values outside the corpora (NaN, huge ints, non-int collection items, Union fields) have no representative",
            "providing an EQUAL scalar twice without overwrite permission may either raise (pinned upstream test) or be kept "
            "(property text says 'conflicting'): both accepted",
            "harvest() may fold with or without overwrite permission (docstring and code disagree; the property fixes neither)",
            "throw-away 'version unspecified' classes created by each schemas[name] access are pruned from the partial "
            "factory's cache and functools caches every 256 harvester runs (memory hygiene only)",
            "wall time %.0fs of enumeration" % (time.time() - t0),
        ],
    }


def _samples(B):
    """A few of the cases this run executed, written out."""
    out = []
    rot = ("parse_json", "kw", "to_partial", "parse_obj", "cast")
    for F, cid in (("plain", "Prim"), ("schema", "Nest"), ("plain", "Chain")):
        sp = C.space(F, cid, B["cap"])
        specs = [sp[len(sp) // 3], sp[len(sp) // 2], sp[-1]]
        m = next(m for m in rot if all(M.applicable(m, F, cid, s) for s in specs))
        out.append({"kind": "triple", "factory": F, "cls": cid, "specs": specs, "modes": [m, m, m], "ow": False})
    sp = [s for s in C.space("schema", "Lst", B["cap_harvest"]) if M.applicable("harvester", "schema", "Lst", s)]
    out.append(
        {"kind": "harvest", "factory": "schema", "cls": "Lst", "specs": [sp[1], sp[-1], sp[2]], "modes": ["file-harvester-file"], "ow": False}
    )
    return out


def replay(data):
    """Re-execute one recorded case against the current tree (no pool, no enumeration)."""
    C.worker_init("quick", env.seed())
    case = data["input"]
    if case.get("kind") == "xclass":
        vs, _ = cross_class_cases(env.seed())
        want = json.dumps(data["sig"], sort_keys=True)
        for v in vs:
            if json.dumps(v["sig"], sort_keys=True) == want:
                return v
        return None
    if case.get("kind") == "item":
        import importlib

        fn = getattr(importlib.import_module("mc.props.c14"), case["fn"])
        try:
            with env.watchdog(600):
                fn(tuple(case["item"]))
        except env.StepTimeout:
            return data
        return None
    finds = C.run_case(case)
    if not finds:
        return None
    law = data.get("sig", {}).get("law")
    f = next((f for f in finds if f["law"] == law), finds[0])
    info = {"modes": data.get("sig", {}).get("modes"), "factory": data.get("sig", {}).get("factory")}
    return _violation(case, f, info)
