"""C20 - containers are self-describing about the schemas they use.

Container BFS (as C06) over the harness schema family and all installed schemas; in every state, for
every stored object (found by the independent raw scan): embedded JSON Schema exists and validates the
stored bytes (draft-07), embedded parent chain and provider equal what the plugin system reports, and
a fresh MetadorContainer on the same data (and after R) gives the same answers.
"""
from __future__ import annotations

import mc.env as env  # noqa: F401

import json
import time

from mc import contexp, parallel
from mc.contexp import check
from mc.props import c06

INSTALLED = [
    "core.bib", "core.dashboard", "core.dir", "core.org", "core.person", "core.file", "core.imagefile", "core.packerinfo",
    "core.table", "example.matsci.info", "example.matsci.instrument", "example.matsci.material", "example.matsci.method",
    "example.matsci.specimen",
]  # fmt: skip


def rich_instance(schema, n):
    """Instances exercising special field types (duration, units); None if no special variant."""
    if schema == "core.file":
        d = contexp.instance("core.file", n)
        d["duration"] = "PT1H30M"
        return d
    if schema == "core.table":
        return {"name": f"t{n}", "columns": [{"name": "c1", "unit": "meter"}, {"name": "c2", "unit": "km/s"}]}
    return None


_orig_instance = contexp.instance


class AsChild(dict):
    """Corpus entry: the plain content, attached as an INSTANCE OF A CHILD SCHEMA under the parent schema's name."""

    child = None

    def build(self):
        from metador_core.plugins import schemas

        return schemas[self.child].parse_obj(json.loads(json.dumps(dict(self))))


AS_CHILD = {"core.dir+asbib": "core.bib", "vt.bb+ascc": "vt.cc"}


def instance(schema, n):
    """Corpus for C20: harness family + minimal instances of every installed schema (+ rich variants)."""
    if schema in AS_CHILD:
        v = AsChild(instance(AS_CHILD[schema], n))
        v.child = AS_CHILD[schema]
        return v
    if schema.endswith("+rich"):
        return rich_instance(schema[:-5], n)
    if schema.startswith("vt."):
        return _orig_instance(schema, n)
    from mc import schema_grammar as G
    from mc import schema_installed as SI

    mins = SI.minimal_instances(G.Names(env.seed()))
    d = dict(mins[schema])
    return json.loads(json.dumps(d))


def make_cfg(seed, max_dev):
    cfg = c06.make_cfg("c20", seed, max_dev=max_dev, checks=("self_describing",), schemas=["vt.bb", "vt.cc"])
    G, GD, E, H, GF = cfg["paths"]
    ops = [o for o in cfg["ops"] if o[0] not in ("R", "B")]
    # every installed schema attached at a dataset / a group; rich variants with duration and units
    for i, s in enumerate(INSTALLED):
        ops.append(["attach", (E, G, "/")[i % 3], s])
    ops += [["attach", GD, "core.file+rich"], ["attach", E, "core.table+rich"], ["detach", E, "core.file"]]
    # an instance of a child schema (other constants, more fields) attached under the parent schema's name
    ops += [["attach", G, "core.dir+asbib"], ["attach", E, "vt.bb+ascc"], ["R"], ["B"]]
    cfg["ops"] = ops
    cfg["skip_checks_on_clean_fail"] = True
    return cfg


def patch_corpus():
    """Route the container explorer's instance corpus and schema table through this module."""
    contexp.instance = lambda s, n: instance(s, n)
    base = contexp.schema_info.__wrapped__ if hasattr(contexp.schema_info, "__wrapped__") else contexp.schema_info

    def si(envs=("old",)):
        out = base(envs)
        for s in INSTALLED:
            out[s] = {"version": (0, 1, 0), "aux": False}
        return out

    si.__wrapped__ = base
    contexp.schema_info = si


def worker_init(**kw):
    contexp.worker_init(**kw)
    patch_corpus()


expand = contexp.expand
init_key = contexp.init_key


def _ref_of(ep):
    from metador_core.plugin.types import EPName, from_ep_name
    from metador_core.plugins import schemas

    n, v = from_ep_name(EPName(ep))
    return schemas.PluginRef(name=n, version=v)


def _describe(toc, ref):
    """What a container reports about a schema: (jsonschema, parent path, provider summary)."""
    js = toc.schemas[ref]
    pp = [str(r) for r in toc.schemas.parent_path(ref)]
    prov = toc.schemas.provider(ref)
    provd = (str(prov.name), tuple(prov.version), sorted(str(r) for r in prov.plugins.get("schema", [])))
    return js, pp, provd


@check("self_describing")
def self_describing(cont, model, cfg, ctx):
    import jsonschema

    from metador_core.container import MetadorContainer
    from metador_core.plugins import schemas

    sc = contexp.scan_raw(cont.raw)
    live = cont.mc.metador
    fresh = MetadorContainer(cont.raw).metador
    seen_refs = set()
    for node, exists, ep, uuid, path in sc["objects"]:
        if uuid is None:
            continue
        ref = _ref_of(ep)
        raw = cont.raw[path][()]
        raw = raw.tobytes() if hasattr(raw, "tobytes") else raw
        try:
            doc = json.loads(raw)
        except Exception as e:
            return {"kind": "stored-not-json", "what": f"stored object {path} is not JSON: {e}"}
        descs = []
        for which, toc in (("live", live), ("fresh", fresh)):
            try:
                descs.append(_describe(toc, ref))
            except Exception as e:
                return {"kind": "description-missing", "what": f"{which} container cannot describe schema {ref} of stored object {path}: {type(e).__name__}: {e}", "sig": {"which": which, "schema": ref.name}}
        if descs[0] != descs[1]:
            return {"kind": "description-live-vs-fresh", "what": f"live and freshly opened container describe {ref} differently", "sig": {"schema": ref.name}}
        js, pp, provd = descs[0]
        try:
            jsonschema.Draft7Validator.check_schema(js)
            errs = sorted(jsonschema.Draft7Validator(js).iter_errors(doc), key=str)
        except Exception as e:
            return {"kind": "embedded-schema-invalid", "what": f"embedded JSON Schema of {ref} unusable: {type(e).__name__}: {e}", "sig": {"schema": ref.name}}
        if errs:
            return {"kind": "object-does-not-validate", "what": f"stored object {path} = {doc} does not validate against the embedded JSON Schema of {ref}: {errs[0].message[:300]}", "sig": {"schema": ref.name}}
        if ref in seen_refs:
            continue
        seen_refs.add(ref)
        env_pp = [str(r) for r in schemas.parent_path(ref.name, ref.version)]
        if pp != env_pp:
            return {"kind": "parent-chain", "what": f"embedded parent chain of {ref} = {pp}, plugin system says {env_pp}", "sig": {"schema": ref.name}}
        ep_ = schemas.provider(ref)
        env_prov = (str(ep_.name), tuple(ep_.version), sorted(str(r) for r in ep_.plugins.get("schema", [])))
        if provd != env_prov:
            return {"kind": "provider", "what": f"embedded provider of {ref} = {provd[:2]}, plugin system says {env_prov[:2]} (plugin lists equal: {provd[2]==env_prov[2]})", "sig": {"schema": ref.name}}
        if str(ref) not in provd[2]:
            return {"kind": "provider-does-not-list-plugin", "what": f"provider record {provd[:2]} does not list {ref}", "sig": {"schema": ref.name}}
        # the embedded schema is the schema's own JSON Schema
        cls = schemas.get(ref.name, ref.version)
        if js != json.loads(cls.schema_json()):
            return {"kind": "embedded-schema-differs", "what": f"embedded JSON Schema of {ref} differs from the schema class's schema_json()", "sig": {"schema": ref.name}}
    # nothing but used schemas is described
    used = {str(_ref_of(ep)) for (_, _, ep, u, _) in sc["objects"] if u}
    if {str(k) for k in live.schemas.keys()} != used:
        return {"kind": "described-set", "what": f"container describes {sorted(str(k) for k in live.schemas.keys())}, uses {sorted(used)}"}
    return None


def run(tier, seed):
    q = tier == "quick"
    cfg = make_cfg(seed, 1 if q else 2)
    depth = {"h5": 3 if q else 4, "ih5": 2 if q else 3}
    budget = 600 if q else 2400
    t0 = time.time()
    fam, violations, samples = {}, [], []
    with parallel.make_pool("mc.props.c20", {"cfgs": {"c20": cfg}, "envs": ["old"], "check_modules": ["mc.props.c20"]}) as pool:
        for drv in ("h5", "ih5"):
            r = contexp.bfs(pool, "c20", cfg, drv, depth[drv], budget_s=budget, t0=t0)
            violations += r.pop("violations")
            samples += [{"driver": drv, "history": h} for h in r.pop("samples")[:1]]
            fam[drv] = r
        r = contexp.bfs(pool, "c20", cfg, "h5", 2 if q else 3, budget_s=budget, t0=t0, start=c06.starts(cfg)["rich"])
        violations += r.pop("violations")
        fam["h5-from-rich"] = r
        r = contexp.bfs(pool, "c20", cfg, "h5", 2 if q else 3, budget_s=budget, t0=t0, start=c06.starts(cfg)["descendants"])
        violations += r.pop("violations")
        fam["h5-from-descendants"] = r
    cov = {
        "states": sum(f["states"] for f in fam.values()),
        "transitions": sum(f["transitions"] for f in fam.values()),
        "traces_validated_against_impl": sum(f["transitions"] for f in fam.values()),
        "families": fam,
        "alphabet": len(cfg["ops"]),
        "schemas": ["vt.bb", "vt.cc"] + INSTALLED + ["core.file+duration", "core.table+units"],
        "exhaustive": not any(f["capped"] for f in fam.values()),
        "samples": samples or [{"history": []}],
        "rule": "container histories (C06 alphabet with vt.bb/vt.cc, every installed schema at one node each, rich core.file/core.table instances) up to the completed depth; "
        "in every state every stored object (independent raw scan) must validate (draft-07) against the embedded JSON Schema, the embedded parent chain/provider must equal the "
        "plugin system's, the embedded schema must equal schema_json(), and live vs. freshly constructed container must agree",
    }
    return {"level": "model_checking", "coverage": cov, "violations": violations, "assumptions": ["jsonschema draft-07 validator is the judge of validity", "minimal instances per installed schema (shared with C12) + two rich instances"]}


def replay(data):
    c = data["config"]
    cfg = make_cfg(env.seed(), 9)
    worker_init(cfgs={"c20": cfg}, envs=["old"], check_modules=["mc.props.c20"])
    return contexp.check_history((cfg, c["driver"], data["history"]))
