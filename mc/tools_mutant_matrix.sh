#!/bin/bash
# usage: mc/tools_mutant_matrix.sh [pattern]   -> appends to mutants/RESULTS.tsv: patch, property, pinned-tests, rc, #violation classes
cd /verif
pat="${1:-*}"
for patch in mutants/$pat.patch; do
  name=$(basename "$patch" .patch)
  pid=$(echo "$name" | cut -d- -f1 | tr a-z A-Z)
  wt=$(mktemp -d /tmp/seedwt-XXXXXX); rmdir "$wt"
  git -C /repo worktree add -q --detach "$wt" HEAD || continue
  if ! git -C "$wt" apply "$(readlink -f "$patch")" 2>/dev/null && ! (cd "$wt" && patch -s -p1 -F3 < "/verif/$patch" >/dev/null 2>&1); then echo -e "$name\t$pid\tPATCH-FAILS\t-\t-" >> mutants/RESULTS.tsv; git -C /repo worktree remove --force "$wt"; continue; fi
  if [ "${SKIP_PINNED:-0}" = "1" ]; then pinned="skipped"; else
    pinned=$(cd "$wt" && PYTHONPATH="$wt/src" /venv/bin/python -m pytest -q -p no:cacheprovider --timeout=900 --continue-on-collection-errors 2>&1 | tail -1 | grep -o '[0-9]* passed' )
  fi
  out=$(VERIF_REPO="$wt" VERIF_NO_EVIDENCE=1 ./check "$pid" --tier quick 2>&1); rc=$?
  nv=$(echo "$out" | grep -c '^VIOLATION')
  first=$(echo "$out" | grep -A1 '^VIOLATION' | sed -n 2p | cut -c1-160)
  echo -e "$name\t$pid\t$pinned\trc=$rc\t$nv\t$first" >> mutants/RESULTS.tsv
  git -C /repo worktree remove --force "$wt"
done
