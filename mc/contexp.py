"""Explicit-state exploration of real MetadorContainers (drivers h5py.File / IH5Record / IH5MFRecord).

Shared by C06 (TOC sync), C07 (metadata + queries), C08 (reserved namespace), C09 (driver
equivalence), C20 (self-description).  A state is the op history reaching it; `Cont` replays it on a
fresh real container; `CModel` is the boring reference (plain h5py tree + dict of attached objects).
"""
from __future__ import annotations

import mc.env as env  # noqa: F401

import hashlib
import json
import os
import re
from pathlib import Path

import h5py

from mc.impl import h5ops, ih5

CFGS = {}
CHECKS = {}  # name -> function(cont, model, cfg, ctx) -> problem dict | None


def worker_init(cfgs=None, envs=("old",), check_modules=()):
    import importlib

    from mc import vtreg

    vtreg.register(tuple(envs))
    CFGS.clear()
    CFGS.update(cfgs or {})
    for m in check_modules:
        importlib.import_module(m)


def check(name):
    def deco(fn):
        CHECKS[name] = fn
        return fn

    return deco


PREF = "metador_"
TOC = "/metador_container"
UUID_RE = re.compile(r"[0-9a-f]{8}-[0-9a-f]{4}-[0-9a-f]{4}-[0-9a-f]{4}-[0-9a-f]{12}")


def is_internal(path: str) -> bool:
    return any(seg.startswith(PREF) for seg in path.split("/"))


# ----------------------------------------------------------------------------------- metadata corpus


def instance(schema: str, n: int):
    """A valid instance (plain dict) of the named schema; n makes it unique."""
    if schema == "vt.aa":
        return {"x": n, "s": "v"}
    if schema == "vt.bb":
        return {"x": n, "b": n + 1}
    if schema == "vt.cc":
        return {"x": n, "s": "w", "b": 2, "c": "c%d" % n}
    if schema == "vt.dd":
        return {"x": n, "d": 4}
    if schema == "vt.a0":
        return {"x": n, "e": 5}
    if schema == "vt.xx":
        return {"q": n}
    if schema == "core.file":
        return {
            "@id": f"f{n}.txt",
            "filename": f"f{n}.txt",
            "encodingFormat": "text/plain",
            "contentSize": n,
            "sha256": "sha256:" + hashlib.sha256(str(n).encode()).hexdigest(),
        }
    if schema == "core.dir":
        return {"@id": f"d{n}/"}
    if schema == "core.bib":
        return {"name": f"t{n}", "abstract": "a", "dateCreated": "2020-01-01", "creator": {"name": "A B"}, "author": [{"name": "A B"}]}
    return {"nope": n}


class HarnessObservation(Exception):
    """An op of the alphabet observed something wrong on the spot (reported as outcome 'fail:HarnessObservation')."""


# ----------------------------------------------------------------------------------- real container


class Cont:
    def __init__(self, driver: str, name="cont"):
        from metador_core.container import MetadorContainer

        self.driver = driver
        self.dir = env.fresh_dir("k")
        self.path = os.path.join(self.dir, name + (".h5" if driver == "h5" else ""))
        self.n = 0
        if driver == "h5":
            self.raw = h5py.File(self.path, "w")
        else:
            self.raw = ih5.record_class("mf" if driver == "mf" else "ih5")(self.path, "w")
        self.mc = MetadorContainer(self.raw)
        self.dirty = False  # True once an op succeeded on this container OBJECT (in-memory index is incremental)

    def reopen(self):
        from metador_core.container import MetadorContainer

        self.mc.close()
        if self.driver == "h5":
            self.raw = h5py.File(self.path, "r+")
        else:
            self.raw = ih5.record_class("mf" if self.driver == "mf" else "ih5")(self.path, "r+")
        self.mc = MetadorContainer(self.raw)
        self.dirty = False

    def apply(self, op):
        """Returns 'ok' | 'fail:<Exc>' | 'timeout'."""
        self.n += 1
        n = self.n
        mc = self.mc
        k = op[0]
        try:
            with env.watchdog(env.step_timeout()):
                if k == "mkds":
                    mc[op[1]] = n
                elif k == "mkgrp":
                    mc.create_group(op[1])
                elif k == "rgrp":
                    mc.require_group(op[1])
                elif k == "del":
                    del mc[op[1]]
                elif k == "sa":
                    mc[op[1]].attrs[op[2]] = n
                elif k == "da":
                    del mc[op[1]].attrs[op[2]]
                elif k == "attach":
                    # schema token "name+variant": variant only selects the instance from the corpus
                    val = instance(op[2], n)
                    if hasattr(val, "build"):  # corpus entry that stands for an object (e.g. an instance of a child schema)
                        val = val.build()
                    mc[op[1]].meta[op[2].split("+")[0]] = val
                elif k == "attachheld":
                    # ONE metadata interface object of the node, kept and used again: store, (second store of the same
                    # schema must be refused), the object must then be retrievable through the same interface object
                    m = mc[op[1]].meta
                    sname = op[2].split("+")[0]
                    m[sname] = instance(op[2], n)
                    try:
                        m[sname] = instance(op[2], n)
                    except ValueError:
                        pass
                    if sname not in m or m.get(sname) is None:
                        raise HarnessObservation(f"held meta interface of {op[1]} does not see the {sname} object it stored itself")
                elif k == "detach":
                    del mc[op[1]].meta[op[2].split("+")[0]]
                elif k == "copy":
                    if op[3]:
                        mc.copy(op[1], op[2], without_meta=True)
                    else:
                        mc.copy(op[1], op[2])
                elif k == "copyobj":  # source given as node object
                    mc.copy(mc[op[1]], op[2])
                elif k == "move":
                    mc.move(op[1], op[2])
                elif k == "gcopy":  # [gcopy, group, srckey, dstkey]: called on a sub-group, both paths relative to it
                    mc[op[1]].copy(op[2], op[3])
                elif k == "gmove":
                    mc[op[1]].move(op[2], op[3])
                elif k == "mkdsv":  # [mkdsv, path, kind]
                    mc[op[1]] = h5ops.special_value(op[2])
                elif k == "R":
                    self.reopen()
                elif k == "B":
                    if self.driver != "h5":
                        self.raw.commit_patch()
                        self.raw.create_patch()
                else:
                    raise AssertionError(op)
            if k not in ("R", "B"):
                self.dirty = True
            return "ok"
        except env.StepTimeout:
            return "timeout"
        except AssertionError as e:
            if "unknown" in str(e) or (e.args and e.args[0] is op):
                raise
            return "fail:AssertionError"
        except Exception as e:
            return "fail:" + type(e).__name__

    def close(self):
        try:
            if self.driver == "h5":
                self.raw.close()
            else:
                ih5.discard(self.raw)
        except Exception:
            pass
        env.rmtree(self.dir)


# ----------------------------------------------------------------------------------- reference model


class CModel:
    """Plain tree (h5py core) + {(node path, schema name): (version, dict)}."""

    def __init__(self, schema_info):
        self.tree = ih5.new_model()
        self.meta = {}
        self.n = 0
        self.si = schema_info  # name -> {"version": tuple, "aux": bool} for attachable names

    def _kind(self, p):
        if p == "/":
            return "G"
        o = self.tree.get(p)
        if o is None:
            return None
        return "G" if h5ops.is_group(o) else "D"

    def apply(self, op):
        self.n += 1
        n = self.n
        t = self.tree
        k = op[0]
        if k == "attachheld":  # for the reference the same as a single attach
            op = ["attach"] + list(op[1:])
            k = "attach"
        try:
            if k == "mkds":
                t[op[1]] = n
            elif k == "mkgrp":
                t.create_group(op[1])
            elif k == "rgrp":
                t.require_group(op[1])
            elif k == "del":
                p = op[1]
                del t[p]
                for key in [key for key in self.meta if key[0] == p or key[0].startswith(p.rstrip("/") + "/")]:
                    del self.meta[key]
            elif k == "sa":
                t[op[1]].attrs[op[2]] = n
            elif k == "da":
                del t[op[1]].attrs[op[2]]
            elif k == "attach":
                node, s = op[1], op[2].split("+")[0]
                if self._kind(node) is None:
                    raise KeyError(node)
                info = self.si.get(s)
                if info is None or info["aux"]:
                    raise TypeError(s)
                if (node, s) in self.meta:
                    raise ValueError("exists")
                self.meta[(node, s)] = (tuple(info["version"]), instance(op[2], n))
            elif k == "detach":
                del self.meta[(op[1], op[2].split("+")[0])]
            elif k in ("copy", "copyobj"):
                s, d = op[1], op[2]
                t.copy(s, d)
                if k == "copyobj" or not op[3]:
                    for (p, sn), v in list(self.meta.items()):
                        if s == "/":  # the whole container into one of its (new) groups
                            self.meta[(d if p == "/" else d + p, sn)] = (v[0], json.loads(json.dumps(v[1])))
                        elif p == s or p.startswith(s + "/"):
                            self.meta[(d + p[len(s) :], sn)] = (v[0], json.loads(json.dumps(v[1])))
            elif k == "move":
                s, d = op[1], op[2]
                t.move(s, d)
                for (p, sn), v in list(self.meta.items()):
                    if p == s or p.startswith(s + "/"):
                        del self.meta[(p, sn)]
                        self.meta[(d + p[len(s) :], sn)] = v
            elif k in ("gcopy", "gmove"):
                g = op[1].rstrip("/")
                s_, d_ = f"{g}/{op[2]}", f"{g}/{op[3]}"
                return self.apply(["copy" if k == "gcopy" else "move", s_, d_, False]) if (self.__setattr__("n", self.n - 1) or True) else None
            elif k == "mkdsv":
                t[op[1]] = h5ops.special_value(op[2])
            elif k in ("R", "B"):
                pass
            else:
                raise AssertionError(op)
            return "ok"
        except AssertionError:
            raise
        except Exception as e:
            return "fail:" + type(e).__name__

    def tree_dump(self):
        return h5ops.dump_visit(self.tree)

    def close(self):
        try:
            self.tree.close()
        except Exception:
            pass


def build_model(hist, schema_info):
    """Reference state after the successful ops of hist (a failed op has no effect by definition)."""
    m = CModel(schema_info)
    good = []
    for op in hist:
        r = m.apply(op)
        if r == "ok":
            good.append((op, m.n))
        else:
            # drop possible partial effects of the failed op on the h5py tree
            meta, n = m.meta, m.n
            m.close()
            m = CModel(schema_info)
            for o, k in good:
                m.n = k - 1
                m.apply(o)
            m.n = n
    return m


# ----------------------------------------------------------------------------------- independent raw scan


def scan_raw(raw):
    """Scan the unwrapped container with plain visits, following the documented layout."""
    nodes = {}  # path -> kind

    def vis(name, o):
        nodes["/" + name] = "G" if h5ops.is_group(o) else "D"

    raw.visititems(vis)
    objects = []  # (node path, node exists?, ep name, uuid, object path)
    metadirs = []
    for p, kind in nodes.items():
        segs = p.split("/")
        last = segs[-1]
        if last.startswith("metador_meta_") and not any(s.startswith(PREF) for s in segs[1:-1]):
            # metadata directory
            if last == "metador_meta_":
                node = "/".join(segs[:-1]) or "/"
                node_kind = "G"
            else:
                node = "/".join(segs[:-1] + [last[len("metador_meta_") :]])
                node_kind = "D"
            exists = node == "/" or nodes.get(node) == node_kind
            children = [q for q in nodes if q.startswith(p + "/") and "/" not in q[len(p) + 1 :]]
            metadirs.append((p, node, exists, len(children), kind))
            for q in children:
                nm = q[len(p) + 1 :]
                if "=" in nm:
                    ep, uuid = nm.split("=", 1)
                    objects.append((node, exists, ep, uuid, q))
                else:
                    objects.append((node, exists, "?" + nm, None, q))
    links = []  # (ep, uuid, target, link path)
    linkgroups = {}
    lp = TOC + "/links"
    for p, kind in nodes.items():
        if p.startswith(lp + "/"):
            rest = p[len(lp) + 1 :].split("/")
            if len(rest) == 1:
                linkgroups.setdefault(rest[0], 0)
            elif len(rest) == 2:
                linkgroups[rest[0]] = linkgroups.get(rest[0], 0) + 1
                tgt = raw[p][()]
                tgt = tgt.decode() if isinstance(tgt, bytes) else str(tgt)
                links.append((rest[0], rest[1], tgt, p))
    schemas = {}
    sp = TOC + "/schemas"
    for p in nodes:
        if p.startswith(sp + "/"):
            rest = p[len(sp) + 1 :].split("/")
            if len(rest) == 1:
                schemas.setdefault(rest[0], set())
            else:
                schemas.setdefault(rest[0], set()).add("/".join(rest[1:]))
    packages = {}
    pp = TOC + "/packages"
    for p in nodes:
        if p.startswith(pp + "/") and "/" not in p[len(pp) + 1 :]:
            b = raw[p][()]
            packages[p[len(pp) + 1 :]] = bytes(b) if not isinstance(b, bytes) else b
    return {
        "nodes": nodes,
        "objects": objects,
        "metadirs": metadirs,
        "links": links,
        "linkgroups": linkgroups,
        "schemas": schemas,
        "packages": packages,
        "has_links_dir": lp in nodes,
        "has_schemas_dir": sp in nodes,
        "has_packages_dir": pp in nodes,
    }


def raw_canon(cont: Cont):
    """Dedup key: raw dump with uuids indexed by first occurrence and integers erased."""
    parts = []
    if cont.driver == "h5":
        files = [cont.raw]
    else:
        files = list(cont.raw.__files__)
    for f in files:
        parts.append(repr(_rawdump(f)))
    s = "\n".join(parts)
    idx = {}

    def sub(m):
        return "U%d" % idx.setdefault(m.group(0), len(idx))

    s = UUID_RE.sub(sub, s)
    s = re.sub(r"\d+", "#", s)
    # in-memory component: an index rebuilt from disk (fresh after open) vs. maintained incrementally,
    # plus the literal content of the index objects (two histories may reach the same files with different
    # leftovers in memory, e.g. an emptied per-package entry) - only for deduplication, never for a verdict
    extra = ("inc" if getattr(cont, "dirty", False) else "fresh") + _inmem_digest(cont.mc)
    if cont.driver != "h5":
        extra += f"{len(files)}{cont.raw._has_writable}"
    return hashlib.blake2b((s + extra).encode(), digest_size=16).digest()


def _inmem_digest(mc) -> str:
    parts = []
    try:
        toc = mc.metador
    except Exception:
        return "?"
    for path in (("_links", "_toc_path"), ("_schemas", "_schemas"), ("_schemas", "_parents"), ("_schemas", "_children"), ("_schemas", "_used"), ("_packages", "_pkginfos"), ("_packages", "_providers")):
        o = toc
        for a in path:
            o = getattr(o, a, None)
            if o is None:
                break
        parts.append(_lit(o))
    s = repr(parts)
    idx = {}
    s = UUID_RE.sub(lambda m: "U%d" % idx.setdefault(m.group(0), len(idx)), s)
    return hashlib.blake2b(s.encode(), digest_size=8).hexdigest()


def _lit(o):
    if isinstance(o, dict):
        return sorted(((_lit(k), _lit(v)) for k, v in o.items()), key=repr)
    if isinstance(o, (set, frozenset)):
        return sorted((_lit(x) for x in o), key=repr)
    if isinstance(o, (list, tuple)):
        return [_lit(x) for x in o]
    if hasattr(o, "json") and callable(getattr(o, "json")):
        try:
            return o.json()
        except Exception:
            return repr(o)
    return repr(o)


def _rawdump(f):
    items = []

    def vis(name, o):
        if isinstance(o, h5py.Group):
            items.append((name, "G", tuple(sorted((k, _v(v)) for k, v in o.attrs.items()))))
        else:
            items.append((name, "D", _v(o[()]), tuple(sorted((k, _v(v)) for k, v in o.attrs.items()))))

    f.visititems(vis)
    items.sort(key=lambda t: t[0])
    return (tuple(sorted((k, _v(v)) for k, v in f.attrs.items())), tuple(items))


def _v(v):
    if isinstance(v, bytes):
        return v.decode("utf-8", "replace")
    r = h5ops.val_repr(v)
    return r


# ----------------------------------------------------------------------------------- user view through the container API


def user_view(mc, probe_paths=()):
    """The user-visible tree through every listing primitive of the container interface."""
    a = h5ops.dump_visit(mc)
    b = h5ops.dump_rec(mc)
    c = h5ops.dump_items(mc)
    names = []
    mc.visit(lambda n: names.append(n))
    per_group = []
    reversed_listings = []

    def grp(g, path):
        ks = list(g.keys())
        per_group.append((path, tuple(sorted(ks)), len(g), tuple(sorted(iter(g))), tuple(sorted(k for k, _ in g.items())), len(list(g.values()))))
        try:
            rv = tuple(sorted(reversed(g)))  # mappings may or may not be reversible; if they are: the same members
        except Exception:  # noqa: BLE001  (not reversible - however that is reported)
            rv = None
        if rv is not None:
            reversed_listings.append((path, rv))
        for k in ks:
            o = g[k]
            if h5ops.is_group(o):
                grp(o, path.rstrip("/") + "/" + k)

    grp(mc, "/")
    probes = []
    datasets = {"/" + n for (n, kind, _, _) in a[1] if kind == "D"}
    for p in probe_paths:
        segs = p.strip("/").split("/")
        if any("/" + "/".join(segs[:i]) in datasets for i in range(1, len(segs))):
            # a path running through a dataset is not a tree position (h5py: TypeError/False, IH5: ValueError)
            probes.append((p, False, False))
            continue
        inn = p in mc
        g = mc.get(p)
        probes.append((p, bool(inn), g is not None))
    return {"visit": a, "rec": b, "items": c, "names": tuple(sorted(names)), "groups": tuple(sorted(per_group)), "probes": tuple(probes), "nav": nav_view(mc), "reversed": tuple(reversed_listings)}


def nav_view(f):
    """What navigation and early-exit walks answer: works on a container and on a plain h5py tree alike.

    * for every node: name of .parent and the listing obtained through .parent
    * visit / visititems with a callback whose result is falsy but not None: result handed back, number of calls
    """
    parents = []

    def rec(g, path):
        for k in sorted(g.keys()):
            o = g[k]
            par = o.parent
            parents.append((path.rstrip("/") + "/" + k, par.name, tuple(sorted(par.keys()))))
            if h5ops.is_group(o):
                rec(o, path.rstrip("/") + "/" + k)

    rec(f, "/")
    early = []
    for ret in (0, False, ""):
        calls = []

        def cb(n, o=None, ret=ret, calls=calls):
            calls.append(n)
            return ret

        r1 = f.visit(cb)
        n1 = len(calls)
        del calls[:]
        r2 = f.visititems(cb)
        early.append((repr(r1), n1, repr(r2), len(calls)))
    return (tuple(parents), tuple(early))


# ----------------------------------------------------------------------------------- generic expansion


def schema_info(envs=("old",)):
    from mc import vtschemas

    out = {}
    for e in envs:
        for cls in vtschemas.CLASSES[e]:
            nm, ver = cls.Plugin.name, tuple(cls.Plugin.version)
            if nm not in out or tuple(out[nm]["version"]) < ver:
                out[nm] = {"version": ver, "aux": bool(getattr(cls.Plugin, "auxiliary", False))}
    out["core.file"] = {"version": (0, 1, 0), "aux": False}
    out["core.dir"] = {"version": (0, 1, 0), "aux": False}
    return out


def enabled(cfg, hist, driver):
    nb = sum(1 for o in hist if o[0] in ("B", "R"))
    out = []
    for op in cfg["ops"]:
        if op[0] in ("B", "R"):
            if nb >= cfg.get("max_dev", 1):
                continue
            if op[0] == "B" and driver == "h5":
                continue
        out.append(op)
    return out


def _viol(prop_kind, cfg, driver, hist, op, detail, extra=None):
    sig = {"kind": prop_kind, "driver": driver, "op": op[0] if op else None}
    if extra:
        sig.update(extra)
    return {
        "sig": sig,
        "what": detail,
        "history": hist + ([op] if op else []),
        "config": {"cfg": cfg["name"], "driver": driver, "envs": list(cfg.get("envs", ("old",))), "checks": cfg["checks"], "ops": None},
    }


def run_checks(cont, model, cfg, hist, op, status):
    ctx = {"hist": hist, "op": op, "status": status}
    for name in cfg["checks"]:
        pr = CHECKS[name](cont, model, cfg, ctx)
        if pr is not None:
            return _viol(pr.get("kind", name), cfg, cont.driver, hist, op, pr["what"], pr.get("sig"))
    return None


def build(cfg, driver, hist):
    c = Cont(driver)
    for op in hist:
        r = c.apply(op)
        if r == "timeout":
            break
    return c


def expand(task):
    """Worker: from state hist on `driver` try every enabled op; run the configured checks after each."""
    cfg_name, driver, hist = task[:3]
    cfg = CFGS[cfg_name]
    si = schema_info(tuple(cfg.get("envs", ("old",))))
    out = []
    cont = None
    base_key = None
    ops = enabled(cfg, hist, driver)
    if len(task) > 3:
        ops = ops[task[3] : task[4]]
    try:
        for op in ops:
            if cont is None:
                cont = build(cfg, driver, hist)
                if base_key is None:
                    base_key = raw_canon(cont)
                if cfg.get("prime", True) and hist:
                    # observe the state BEFORE the op as well (same object): answers given now must not
                    # influence answers after the op (stale caches); the state itself was judged when reached
                    try:
                        m0 = build_model(hist, si)
                        try:
                            with env.watchdog(120):
                                run_checks(cont, m0, cfg, hist[:-1], hist[-1], {"impl": "ok", "model": "ok", "prime": True})
                        finally:
                            m0.close()
                    except env.StepTimeout:
                        pass
            cont.n = len(hist)  # fresh value of this step = len(hist)+1 on both sides
            ri = cont.apply(op)
            model, rm = model_step(hist, op, si)
            try:
                if ri == "timeout":
                    out.append((op, "viol", None, _viol("nonterm", cfg, driver, hist, op, "operation did not terminate")))
                    cont.close()
                    cont = None
                    continue
                status = {"impl": ri, "model": rm}
                v = None
                if cfg.get("judge_outcome", True) and (ri == "ok") != (rm == "ok"):
                    v = _viol("outcome", cfg, driver, hist, op, f"container op {ri}, reference {rm}", _osig(op, ri, rm))
                clean_fail = ri != "ok" and cfg.get("skip_checks_on_clean_fail") and raw_canon(cont) == base_key
                if v is None and not clean_fail:
                    try:
                        with env.watchdog(120):
                            v = run_checks(cont, model, cfg, hist, op, status)
                    except env.StepTimeout:
                        v = _viol("check-nonterm", cfg, driver, hist, op, "reading the container did not terminate")
                if v is not None:
                    out.append((op, "viol", None, v))
                    cont.close()
                    cont = None
                    continue
                key = raw_canon(cont)
                if ri == "ok":
                    out.append((op, "ok", key, None))
                    cont.close()
                    cont = None
                elif key != base_key:
                    out.append((op, "failchg", key, None))
                    cont.close()
                    cont = None
                else:
                    out.append((op, "fail", None, None))
            finally:
                model.close()
    finally:
        if cont is not None:
            cont.close()
    return out


def _osig(op, ri, rm):
    sig = {"impl": ri.split(":")[0], "model": rm}
    if op[0] in ("attach", "detach", "attachheld"):
        sig["schema"] = op[2]
    return sig


def model_step(hist, op, si):
    """Reference after hist, then op: returns (model after, 'ok'|'fail')."""
    m = build_model(hist, si)
    r = m.apply(op)
    if r == "ok":
        return m, "ok"
    n = m.n
    m.close()
    m = build_model(hist, si)  # failed op: no effect
    m.n = n
    return m, "fail"


def init_key(task):
    cfg_name, driver = task[:2]
    start = task[2] if len(task) > 2 else []
    c = build(CFGS[cfg_name], driver, start)
    try:
        return raw_canon(c)
    finally:
        c.close()


def check_history(task):
    """Replay: run a full history with checks at every step. Returns violation or None."""
    cfg, driver, hist = task
    if isinstance(cfg, str):
        cfg = CFGS[cfg]
    si = schema_info(tuple(cfg.get("envs", ("old",))))
    cont = Cont(driver)
    try:
        for i, op in enumerate(hist):
            op = list(op)
            ri = cont.apply(op)
            h = [list(o) for o in hist[:i]]
            if ri == "timeout":
                return _viol("nonterm", cfg, driver, h, op, "operation did not terminate")
            model, rm = model_step(h, op, si)
            try:
                if cfg.get("judge_outcome", True) and (ri == "ok") != (rm == "ok"):
                    return _viol("outcome", cfg, driver, h, op, f"container op {ri}, reference {rm}", _osig(op, ri, rm))
                v = run_checks(cont, model, cfg, h, op, {"impl": ri, "model": rm})
                if v is not None:
                    return v
            finally:
                model.close()
        return None
    finally:
        cont.close()


def bfs(pool, cfg_name, cfg, driver, depth, budget_s=None, t0=None, start=None):
    import time

    from mc import parallel

    t0 = t0 or time.time()
    start = [list(o) for o in (start or [])]
    seen = {pool.map("init_key", [(cfg_name, driver, start)])[0]}
    frontier = [start]
    violations, trans, outcomes, levels, samples = [], 0, {}, [], []
    completed, capped = 0, False
    for lvl in range(1, depth + 1):
        if budget_s is not None and time.time() - t0 > budget_s:
            capped = True
            break
        nops = len(cfg["ops"])
        step = nops if len(frontier) >= 4 * pool.n else max(2, nops // max(1, (4 * pool.n) // max(1, len(frontier))))
        tasks = [(cfg_name, driver, h, lo, lo + step) for h in frontier for lo in range(0, nops, step)]
        res = pool.map("expand", tasks, chunk=1, item_deadline=300)
        nxt = []
        for (_, _, hist, _, _), rl in zip(tasks, res):
            if rl == parallel.HANG:
                violations.append(_viol("worker-hang", cfg, driver, hist, None, "expanding this state hung"))
                continue
            for op, status, key, v in rl:
                trans += 1
                outcomes[f"{op[0]}:{status}"] = outcomes.get(f"{op[0]}:{status}", 0) + 1
                if v is not None:
                    violations.append(v)
                    continue
                if key is not None and key not in seen:
                    seen.add(key)
                    nxt.append(hist + [op])
        frontier = nxt
        completed = lvl
        levels.append(len(seen))
        if frontier:
            samples = [frontier[len(frontier) // 2], frontier[-1]]
    return {
        "states": len(seen),
        "transitions": trans,
        "completed_depth": completed,
        "capped": capped,
        "states_per_level": levels,
        "outcomes": dict(sorted(outcomes.items())),
        "violations": violations,
        "samples": samples,
    }
