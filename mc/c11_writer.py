"""Writer process for C11: runs one patching history on a real record (under strace).

usage: python -m mc.c11_writer <dir> <kind> <scenario.json> <out.json>
scenario = {"history": [tree ops incl. ["B"]], "name": "rec"}   (a final commit is implied)
Markers are written to fd 2 so that the harness can find the API boundaries in the syscall log;
at every commit the view and the directory listing are recorded in out.json.
"""
import mc.env  # noqa: F401

import json
import os
import sys


def mark(s):
    os.write(2, f"@@MARK {s}@@".encode())


def main():
    d, kind, scen, out = sys.argv[1:5]
    sc = json.load(open(scen))
    from mc import ih5lib, treeexp
    from mc.impl import ih5
    from mc.run import _jsonable

    cls = ih5.record_class(kind)
    commits = []
    mark("open-begin")
    rec = cls(os.path.join(d, sc.get("name", "rec")), "w")
    mark("open-done")
    n = 0
    ci = 0

    def commit():
        nonlocal ci
        ci += 1
        view = ih5lib.dump(rec)
        mark(f"commit-begin {ci}")
        rec.commit_patch()
        mark(f"commit-done {ci}")
        commits.append({"view": view, "files": sorted(os.listdir(d))})

    for i, op in enumerate(sc["history"]):
        n += 1
        if op[0] == "B":
            commit()
            mark(f"create-patch-begin {ci}")
            rec.create_patch()
            mark(f"create-patch-done {ci}")
        else:
            r = treeexp._apply(rec, list(op), n, True)
            mark(f"op {i} {r.split(':')[0]}")
    commit()
    rec.close()
    mark("closed")
    json.dump(_jsonable({"commits": commits}), open(out, "w"))


if __name__ == "__main__":
    main()
