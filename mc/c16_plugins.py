"""Harness-owned plugin material for C16 (never registered with the live plugin system).

* `own_group_class(name)`  - a tiny PluginGroup subclass (plugin_class=object) owned by the harness,
* `schema_group_class()`   - the real `PGSchema` class (fresh *instances* are built per execution),
* `fresh_plugin(kind, name, version)` - a brand-new plugin class with an inner `Plugin` section,
* `entry_point(...)`       - a real `importlib_metadata.EntryPoint(...)._for(FakeDist)` whose value
  points at an attribute of *this* module (so `ep.load()` imports like an installed plugin would).

Nothing here touches the live group objects in `metador_core.plugins`; every execution gets a new
group object and new plugin classes.
"""
from __future__ import annotations

import mc.env  # noqa: F401  (numpy shim first)

import sys

import importlib_metadata as _im

from metador_core.plugin import interface as _pgi
from metador_core.schema.core import MetadataSchema as _MetadataSchema

MODULE = __name__


class FakeDist:
    """Stands in for the importlib_metadata Distribution an entry point belongs to."""

    name = "c16-harness-dist"
    version = "0.1.0"


_DIST = FakeDist()
_own_groups = {}


def own_group_class(gname: str):
    """PluginGroup subclass for a harness-owned group `gname` (one class per name and process)."""
    if gname in _own_groups:
        return _own_groups[gname]

    class PGOwn(_pgi.PluginGroup[object]):
        class Plugin:
            name = gname
            version = (0, 1, 0)
            plugin_class = object

        def check_plugin(self, ep_name, plugin):  # nothing group-specific to check
            pass

    # same step create_pg() performs for installed groups
    PGOwn.Plugin = _pgi.PGPlugin.parse_info(PGOwn.Plugin)
    _own_groups[gname] = PGOwn
    return PGOwn


def schema_group_class():
    from metador_core.plugins import schemas

    return type(schemas)


def group_class(kind: str, own_name: str):
    return own_group_class(own_name) if kind == "own" else schema_group_class()


def fresh_plugin(kind: str, name: str, version):
    """A new plugin class for plugin `name` in `version` (plain class or MetadataSchema)."""
    info = type("Plugin", (), {"name": name, "version": tuple(version)})
    base = object if kind == "own" else _MetadataSchema
    # injective spelling of the plugin name as an identifier ("a-b" and "a_b" must not share an attribute)
    ident = "".join(c if c.isalnum() else {".": "_d_", "-": "_h_", "_": "_u_"}.get(c, f"_x{ord(c):x}_") for c in name)
    cname = f"C16_{kind}_{ident}_v" + "_".join(map(str, version))
    if kind == "own":
        return type(cname, (base,), {"Plugin": info, "__module__": MODULE})
    return type(base)(cname, (base,), {"Plugin": info, "__module__": MODULE, "__annotations__": {}})


def publish(cls) -> str:
    """Make `cls` importable as an attribute of this module; returns the attribute name."""
    setattr(sys.modules[MODULE], cls.__name__, cls)
    return cls.__name__


def entry_point(group_name: str, ep_name: str, cls):
    attr = publish(cls)
    return _im.EntryPoint(ep_name, f"{MODULE}:{attr}", "metador_" + group_name)._for(_DIST)


def reset_caches():
    """Drop functools caches of the code under test that were filled with harness classes."""
    try:
        from metador_core.schema import core as _core

        for obj in (
            getattr(_core, "make_schema_inspector", None),
            getattr(getattr(_core.SchemaMagic, "_typehints", None), "fget", None),
            getattr(getattr(_core.SchemaMagic, "_base_typehints", None), "fget", None),
        ):
            cc = getattr(obj, "cache_clear", None)
            if cc is not None:
                cc()
    except Exception:
        pass
