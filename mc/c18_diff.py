"""C18 worker module: snapshot-tree grammar, independent reference and judge for DirDiff.

Abstract tree = nested dict  name -> "x" | "y" | "s1" | "s2" | {...}   (absent = key missing).
  "x"/"y"   file with payload X / Y          -> DirHashsums value "sha256:<hashlib digest>"
  "s1"/"s2" in-directory (dangling) symlink  -> DirHashsums value "symlink:<parent>/<t1|t2>"
  {...}     directory (possibly empty)

Nothing in here imports the reference from the code under test: flattening, expected status and
the ordering simulation are written against the property text only.
"""
from __future__ import annotations

import mc.env as env  # noqa: F401  (numpy shim first)

import hashlib
import itertools
import json
import os
from pathlib import Path

# ------------------------------------------------------------------ spelling (VERIF_SEED renames only)

NAME_POOLS = [
    ("a", "b", "c"),
    ("ab", "a", "a.b"),
    ("x.y", "x", "~"),
    ("foo", "fo", "foo2"),
    ("b", "a", "0"),
    ("B", "a", "_"),
]
TARGET_POOLS = [("t1", "t2"), ("t", "t.t"), ("zz", "z")]
ABSENT_POOLS = [("zz9", "q"), ("nope", "n0")]


def spelling(seed: int) -> dict:
    names = NAME_POOLS[seed % len(NAME_POOLS)]
    t1, t2 = TARGET_POOLS[(seed // 2) % len(TARGET_POOLS)]
    ab1, ab2 = ABSENT_POOLS[seed % len(ABSENT_POOLS)]
    px = bytes([(seed * 7 + 1) % 256]) * (1 + seed % 3) + b"x"
    py = bytes([(seed * 7 + 2) % 256]) * (1 + seed % 3) + b"y"
    return {
        "names": list(names),
        "leaves": {
            "x": {"file": px.hex()},
            "y": {"file": py.hex()},
            "s1": {"link": t1},
            "s2": {"link": t2},
        },
        "absent": [ab1, ab2],
    }


# ------------------------------------------------------------------ grammar


def family_specs(tier: str) -> dict:
    """name -> list of levels (indices into the 3-name alphabet, non-directory leaves)."""
    q = {
        # names {a,b}, depth <= 2, leaves absent / file x / file y / symlink / empty dir  => 841 trees
        "base2": [((0, 1), ("x", "y", "s1")), ((0, 1), ("x", "y", "s1"))],
        # one top-level name, depth 3 (nested removals/replacements two levels deep)     => 123 trees
        "deep3": [((0,), ("x",)), ((0, 1), ("x",)), ((0, 1), ("x",))],
    }
    if tier == "quick":
        return q
    return {
        # two symlink targets                                                           => 1681 trees
        "base2": [((0, 1), ("x", "y", "s1", "s2")), ((0, 1), ("x", "y", "s1", "s2"))],
        # three top-level names {a,b,c} x {absent, file x, dir}, inner directories over
        # {a,b} x {absent, file x, empty dir}                                           => 1331 trees
        "wide3": [((0, 1, 2), ("x",)), ((0, 1), ("x",))],
        # one top-level name, depth 3, quick leaf set                                    => 845 trees
        "deep3": [((0,), ("x", "y", "s1")), ((0, 1), ("x", "y", "s1")), ((0, 1), ("x", "y", "s1"))],
    }


def _entries(spec, level, names):
    """All entries (non-absent) that may sit at `level`."""
    _, leaves = spec[level]
    out = list(leaves)
    if level + 1 < len(spec):
        out += _dirs(spec, level + 1, names)
    else:
        out.append({})
    return out


def _dirs(spec, level, names):
    idxs, _ = spec[level]
    opts = [None] + _entries(spec, level, names)
    out = []
    for combo in itertools.product(opts, repeat=len(idxs)):
        out.append({names[i]: v for i, v in zip(idxs, combo) if v is not None})
    return out


def tree_size(t) -> int:
    return sum(1 + (tree_size(v) if isinstance(v, dict) else 0) for v in t.values())


def enumerate_trees(spec, names) -> list:
    ts = _dirs(spec, 0, names)
    ts.sort(key=lambda t: (tree_size(t), json.dumps(t, sort_keys=True)))
    return ts


# ------------------------------------------------------------------ materialisation


def materialize(tree, leaves, parent=()):
    """Abstract tree -> fresh DirHashsums dict (never shares structure with `tree`)."""
    out = {}
    for k, v in tree.items():
        if isinstance(v, dict):
            out[k] = materialize(v, leaves, parent + (k,))
        else:
            lf = leaves[v]
            if "file" in lf:
                out[k] = "sha256:" + hashlib.sha256(bytes.fromhex(lf["file"])).hexdigest()
            else:
                out[k] = "symlink:" + "/".join(parent + (lf["link"],))
    return out


def build_on_disk(tree, leaves, base):
    os.mkdir(base)
    for k, v in tree.items():
        p = os.path.join(base, k)
        if isinstance(v, dict):
            build_on_disk(v, leaves, p)
        else:
            lf = leaves[v]
            if "file" in lf:
                with open(p, "wb") as f:
                    f.write(bytes.fromhex(lf["file"]))
            else:
                os.symlink(lf["link"], p)


# ------------------------------------------------------------------ independent reference


def flatten(tree) -> dict:
    """path tuple -> entry; () is the root directory itself."""
    out = {(): tree}

    def rec(t, pre):
        for k, v in t.items():
            p = pre + (k,)
            out[p] = v
            if isinstance(v, dict):
                rec(v, p)

    rec(tree, ())
    return out


def etype(e) -> str:
    if e is None:
        return "none"
    if isinstance(e, dict):
        return "dir"
    return "link" if e.startswith("symlink:") else "file"


def expected_status(prev, curr) -> str:
    if prev == curr:
        return "unchanged"
    if prev is None:
        return "added"
    if curr is None:
        return "removed"
    return "modified"


def _shape(prev, curr):
    return f"{etype(prev)}->{etype(curr)}"


def _deepcopy(t):
    return {k: (_deepcopy(v) if isinstance(v, dict) else v) for k, v in t.items()}


def simulate(old, new, steps):
    """Dict filesystem starts as `old`, consumes steps = [(path tuple, status, prev, curr)].

    Returns None if every step was applicable and the result equals `new`, else (why, path, shape).
    """
    fs = _deepcopy(old)

    def parent_of(p):
        cur = fs
        for seg in p[:-1]:
            if not isinstance(cur, dict) or seg not in cur:
                return None
            cur = cur[seg]
        return cur if isinstance(cur, dict) else None

    for p, st, prev, curr in steps:
        shp = _shape(prev, curr)
        if p == ():
            # the root directory itself: it exists before and after, nothing to do at the node
            if st != "modified":
                return ("root-not-modified", p, shp)
            continue
        par = parent_of(p)
        name = p[-1]
        if st == "removed":
            if par is None or name not in par:
                return ("remove-missing-target", p, shp)
            if isinstance(par[name], dict) and par[name]:
                return ("remove-nonempty-dir", p, shp)
            del par[name]
        elif st == "added":
            if par is None:
                return ("add-without-parent-dir", p, shp)
            if name in par:
                return ("add-over-existing", p, shp)
            par[name] = {} if isinstance(curr, dict) else curr
        elif st == "modified":
            if par is None or name not in par:
                return ("modify-missing-target", p, shp)
            have = par[name]
            if isinstance(curr, dict) and isinstance(have, dict):
                continue  # directory stays a directory: children carry the change
            if isinstance(have, dict) and have:
                return ("replace-nonempty-dir", p, shp)
            par[name] = {} if isinstance(curr, dict) else curr
        else:
            return ("unknown-status", p, shp)
    if fs != new:
        return ("end-state-differs", (), "dir->dir")
    return None


# ------------------------------------------------------------------ driving the implementation

_IMPL = {}


def _impl():
    if not _IMPL:
        from metador_core.util.diff import DiffNode, DirDiff
        from metador_core.util.hashsums import dir_hashsums

        _IMPL.update(DiffNode=DiffNode, DirDiff=DirDiff, dir_hashsums=dir_hashsums)
        _IMPL["names"] = {
            DiffNode.Status.added: "added",
            DiffNode.Status.removed: "removed",
            DiffNode.Status.modified: "modified",
            DiffNode.Status.unchanged: "unchanged",
        }
        _IMPL["empty_dir"] = Path(env.fresh_dir("c18empty"))
        _IMPL["empty_dir_s"] = os.fspath(_IMPL["empty_dir"])
    return _IMPL


def _stname(st):
    n = _IMPL["names"].get(st)
    return n if n is not None else repr(st)


def _ptuple(path) -> tuple:
    try:
        return tuple(path.parts)
    except AttributeError:
        return tuple(Path(path).parts)


def _v(kind, shape, what, **extra):
    sig = {"kind": kind, "shape": shape}
    sig.update(extra)
    return {"sig": sig, "what": what}


def judge(prev_in, curr_in, old, new, absent, flat=None):
    """Run DirDiff on (prev_in, curr_in); judge against the reference computed from (old, new).

    prev_in/curr_in and old/new are equal but structurally independent DirHashsums dicts.
    Returns (violations, stats, steps) with violations a list of {"sig","what"}; steps is the
    consumed listing [(path tuple, status name)] (used by the on-disk simulation).
    """
    I = _impl()
    DirDiff = I["DirDiff"]
    viols = []
    stats = {"nodes": 0, "gets": 0}
    fo, fn = (flat or (flatten(old), flatten(new)))
    union = sorted(set(fo) | set(fn))
    exp = {p: expected_status(fo.get(p), fn.get(p)) for p in union}
    equal = old == new

    try:
        with env.watchdog(env.step_timeout()):
            dd = DirDiff.compare(prev_in, curr_in)
            is_empty = bool(dd.is_empty)
            ann = dd.annotate(I["empty_dir"])
    except env.StepTimeout:
        return [_v("hang", "compare", "DirDiff.compare/annotate did not return")], stats, []
    except Exception as e:  # noqa: BLE001
        return [_v("exception", "compare", f"DirDiff.compare/annotate raised {type(e).__name__}: {e}")], stats, []

    if is_empty != equal:
        viols.append(
            _v("is-empty-wrong", "equal" if equal else "different", f"is_empty={is_empty} but snapshots equal={equal}")
        )

    # ---- the listing: nodes() of the root node (documented order), cross-checked with annotate()
    ann_list = []
    base_s = I["empty_dir_s"]
    for k, node in ann.items():
        ks = os.fspath(k)
        if ks == base_s:
            rel = ()
        elif ks.startswith(base_s + "/"):
            rel = tuple(x for x in ks[len(base_s) + 1 :].split("/") if x not in ("", "."))
        else:
            viols.append(_v("annotate-key-not-below-base", "n/a", f"annotate key {k} is not below the base dir"))
            continue
        ann_list.append((rel, node))
    root = next((n for p, n in ann_list if p == () and n is not None), None)
    if root is None:
        try:
            root = dd.get(Path("."))
        except Exception:  # noqa: BLE001
            root = None
    listing = None
    if root is not None:
        try:
            with env.watchdog(env.step_timeout()):
                listing = list(root.nodes())
        except env.StepTimeout:
            return viols + [_v("hang", "nodes", "nodes() did not return")], stats, []
        except Exception as e:  # noqa: BLE001
            return viols + [_v("exception", "nodes", f"nodes() raised {type(e).__name__}: {e}")], stats, []
    if listing is None:
        listing = [n for _, n in ann_list if n is not None]
    listings = [("nodes", listing)]
    if [_ptuple(n.path) for n in listing] != [p for p, n in ann_list]:
        # annotate() promises the same nodes in the same order; if it differs judge it as well
        listings.append(("annotate", [n for _, n in ann_list if n is not None]))

    steps_out = []
    by_path = {}
    for which, lst in listings:
        seen = {}
        steps = []
        for node in lst:
            stats["nodes"] += 1
            p = _ptuple(node.path)
            try:
                st = _stname(node.status())
                st2 = _stname(dd.status(node))
            except Exception as e:  # noqa: BLE001
                viols.append(_v("exception", "status", f"status() raised {type(e).__name__}: {e}", listing=which))
                continue
            if p not in exp:
                viols.append(_v("unknown-path-reported", "none->none", f"{which}: reports {p}, present in neither snapshot", listing=which))
                continue
            eprev, ecurr = fo.get(p), fn.get(p)
            shp = _shape(eprev, ecurr)
            if p in seen:
                viols.append(_v("duplicate-node", shp, f"{which}: path {p} listed twice", listing=which))
                continue
            seen[p] = node
            if exp[p] == "unchanged":
                viols.append(_v("unchanged-reported", shp, f"{which}: unchanged path {p} is reported as {st}", listing=which))
                continue
            if st != exp[p] or st2 != exp[p]:
                viols.append(
                    _v("wrong-status", shp, f"{which}: path {p}: node.status()={st}, DirDiff.status(node)={st2}, expected {exp[p]}", listing=which, expected=exp[p])
                )
            if node.prev != eprev or node.curr != ecurr:
                viols.append(
                    _v("wrong-prev-curr", shp, f"{which}: path {p}: prev/curr = {node.prev!r}/{node.curr!r}, expected {eprev!r}/{ecurr!r}", listing=which)
                )
            steps.append((p, st, eprev, ecurr))
        for p in union:
            if exp[p] != "unchanged" and p not in seen:
                viols.append(
                    _v("changed-not-reported", _shape(fo.get(p), fn.get(p)), f"{which}: {exp[p]} path {p} is not reported", listing=which, expected=exp[p])
                )
        # ---- ordering by simulation (uses the *reported* status, the reference prev/curr)
        bad = simulate(old, new, steps)
        if bad is not None:
            why, p, shp = bad
            viols.append(
                _v("order-sim-failed", shp, f"{which}: consuming the nodes in order fails at {p}: {why}; order = {[(q, s) for q, s, _, _ in steps]}", why=why, listing=which)
            )
        if which == "nodes":
            by_path = seen
            steps_out = [(p, st) for p, st, _, _ in steps]

    # ---- lookup by path agrees with the listing
    probes = list(union) + [(absent[0],), (union[-1][0] if union[-1] else absent[1], absent[0]), (absent[1], absent[0])]
    for p in probes:
        stats["gets"] += 1
        arg = Path(*p) if p else Path(".")
        e = exp.get(p, "unchanged")
        shp = _shape(fo.get(p), fn.get(p))
        try:
            with env.watchdog(env.step_timeout()):
                n = dd.get(arg)
                st = _stname(dd.status(n))
        except env.StepTimeout:
            viols.append(_v("hang", "get", f"get({p}) did not return"))
            continue
        except Exception as ex:  # noqa: BLE001
            viols.append(_v("exception", "get", f"get({p})/status raised {type(ex).__name__}: {ex}"))
            continue
        listed = by_path.get(p)
        if listed is None:
            # not in the listing: lookup must say "no change here"
            if n is not None or st != "unchanged":
                if e == "unchanged":
                    viols.append(_v("get-disagrees", shp, f"get({p}) returns a node with status {st} for a path that is not listed (and unchanged)", expected=e))
                # else: already reported above as changed-not-reported; get is right
        else:
            if n is None:
                viols.append(_v("get-disagrees", shp, f"get({p}) is None/unchanged but the listing has the path as {_stname(listed.status())}", expected=e))
            elif _ptuple(n.path) != p or _stname(n.status()) != _stname(listed.status()) or st != _stname(listed.status()) or n.prev != listed.prev or n.curr != listed.curr:
                viols.append(_v("get-disagrees", shp, f"get({p}) returns node {_ptuple(n.path)} status {st}, listing has {_stname(listed.status())}", expected=e))
    return viols, stats, steps_out


# ------------------------------------------------------------------ on-disk slice


def _copy_entry(src, dst):
    if os.path.islink(src):
        os.symlink(os.readlink(src), dst)
    elif os.path.isdir(src):
        os.mkdir(dst)
    else:
        with open(src, "rb") as f, open(dst, "wb") as g:
            g.write(f.read())


def _remove_entry(p):
    if os.path.islink(p) or not os.path.isdir(p):
        os.unlink(p)
    else:
        os.rmdir(p)  # refuses a non-empty directory


def judge_on_disk(old_t, new_t, leaves, absent):
    """Build both trees on tmpfs, snapshot them with dir_hashsums, judge the diff of the snapshots,
    then apply nodes() in order to the real old directory with real syscalls."""
    I = _impl()
    dh = I["dir_hashsums"]
    root = env.fresh_dir("c18disk")
    try:
        O, N = os.path.join(root, "o"), os.path.join(root, "n")
        build_on_disk(old_t, leaves, O)
        build_on_disk(new_t, leaves, N)
        try:
            prev_in, curr_in = dh(Path(O)), dh(Path(N))
            old, new = dh(Path(O)), dh(Path(N))
        except Exception as e:  # noqa: BLE001
            return [_v("exception", "dir_hashsums", f"dir_hashsums raised {type(e).__name__}: {e}", mode="disk")], {"nodes": 0, "gets": 0}, None
        matches_abstract = old == materialize(old_t, leaves) and new == materialize(new_t, leaves)
        viols, stats, steps = judge(prev_in, curr_in, old, new, absent)
        if not viols:
            why = detail = None
            for p, st in steps:
                if p == ():
                    continue
                dst, src = os.path.join(O, *p), os.path.join(N, *p)
                try:
                    if st == "removed":
                        _remove_entry(dst)
                    elif st == "added":
                        if os.path.lexists(dst):
                            raise FileExistsError(dst)
                        _copy_entry(src, dst)
                    else:
                        if os.path.isdir(src) and not os.path.islink(src) and os.path.isdir(dst) and not os.path.islink(dst):
                            continue
                        _remove_entry(dst)
                        _copy_entry(src, dst)
                except OSError as e:
                    why, detail = f"{st}-step-failed", f"{st} at {p}: {type(e).__name__}: {e.strerror}"
                    break
            if why is None:
                try:
                    after = dh(Path(O))
                except Exception as e:  # noqa: BLE001
                    after = f"raised {type(e).__name__}"
                if after != new:
                    why = detail = "end-state-differs"
            if why is not None:
                viols.append(_v("disk-sim-failed", "n/a", f"applying nodes() with real syscalls: {detail}; order={steps}", mode="disk", why=why))
        stats["matches_abstract"] = int(matches_abstract)
        return viols, stats, None
    finally:
        env.rmtree(root)


# ------------------------------------------------------------------ pool workers

_W = {}


# families with a spelling of their own (for every seed): sibling names where one is a string prefix of the other;
# symlink targets that differ in letter case only
FIXED_SPELLING = {
    "prefix3": {"names": ["a", "ab", "abc"]},
    "case2": {"leaves": {"s1": {"link": "tgt"}, "s2": {"link": "Tgt"}}},
}
FIXED_SPECS = {
    "prefix3": [((0, 1), ("x",)), ((1, 2), ("x",))],
    "case2": [((0, 1), ("x", "s1", "s2")), ((0,), ("s1", "s2"))],
}


def fam_spelling(fam):
    sp = _W["sp"]
    fx = FIXED_SPELLING.get(fam, {})
    return fx.get("names", sp["names"]), dict(sp["leaves"], **fx.get("leaves", {}))


def worker_init(tier="quick", seed=0, slice_k=101):
    sp = spelling(seed)
    _W["sp"] = sp
    _W["slice_k"] = slice_k
    specs = dict(family_specs(tier), **FIXED_SPECS)
    _W["fam"] = {n: enumerate_trees(spec, fam_spelling(n)[0]) for n, spec in specs.items()}
    _impl()


def _input(fam, i, j, old_t, new_t, mode):
    sp = _W["sp"]
    return {"family": fam, "i": i, "j": j, "old": old_t, "new": new_t, "mode": mode, "leaves": fam_spelling(fam)[1], "absent": sp["absent"]}


def check_row(item):
    """item = (family, i): all ordered pairs (tree i, tree j) for every j."""
    fam, i = item
    trees = _W["fam"][fam]
    sp = _W["sp"]
    leaves, absent, k = fam_spelling(fam)[1], sp["absent"], _W["slice_k"]
    n = len(trees)
    old_t = trees[i]
    out = {"pairs": 0, "different": 0, "nodes": 0, "gets": 0, "disk": 0, "disk_match_abstract": 0, "viol": {}}

    def record(vs, j, mode):
        for v in vs:
            key = json.dumps(v["sig"], sort_keys=True)
            slot = out["viol"].get(key)
            if slot is None:
                v = dict(v)
                v["input"] = _input(fam, i, j, old_t, trees[j], mode)
                v["size"] = tree_size(old_t) + tree_size(trees[j])
                out["viol"][key] = [1, v]
            else:
                slot[0] += 1

    ref = _W.setdefault("ref", {}).setdefault(fam, {})
    if not ref:
        # reference-side copies (never handed to the code under test, never mutated by the judge)
        for t_i, t in enumerate(trees):
            m = materialize(t, leaves)
            ref[t_i] = (m, flatten(m))
    old_ref, old_flat = ref[i]
    for j in range(n):
        new_t = trees[j]
        new_ref, new_flat = ref[j]
        vs, st, _ = judge(materialize(old_t, leaves), materialize(new_t, leaves), old_ref, new_ref, absent, (old_flat, new_flat))
        out["pairs"] += 1
        out["different"] += old_t != new_t
        out["nodes"] += st["nodes"]
        out["gets"] += st["gets"]
        if vs:
            record(vs, j, "dict")
        if (i * n + j) % k == 0:
            vs, st, _ = judge_on_disk(old_t, new_t, leaves, absent)
            out["disk"] += 1
            out["disk_match_abstract"] += st.get("matches_abstract", 0)
            out["nodes"] += st["nodes"]
            out["gets"] += st["gets"]
            if vs:
                record(vs, j, "disk")
    return out


def check_input(inp):
    """Re-execute one recorded input; returns the list of violations (replay)."""
    if inp.get("mode") == "disk":
        vs, _, _ = judge_on_disk(inp["old"], inp["new"], inp["leaves"], inp["absent"])
    else:
        o, n, lv = inp["old"], inp["new"], inp["leaves"]
        vs, _, _ = judge(materialize(o, lv), materialize(n, lv), materialize(o, lv), materialize(n, lv), inp["absent"])
    return vs
