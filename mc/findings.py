"""Known findings: committed file, read-only at run time.

known_findings.json = {"open": [{"property": "C15", "what": "...", "match": {...}}, ...],
                       "fixed": ["fixed: property=C01 <commit> <what failed>", ...]}

An open finding matches a violation when every key of `match` is present in the
violation's `sig` with an equal value (lists compare as sets).  `fixed` lines are
informational and suppress nothing.
"""
from __future__ import annotations

import json
import os

from mc import env

PATH = os.path.join(env.VERIF_DIR, "known_findings.json")


def load(pid: str):
    if not os.path.exists(PATH):
        return []
    doc = json.load(open(PATH))
    return [f for f in doc.get("open", []) if f.get("property") == pid]


def _eq(a, b):
    if isinstance(a, list) and isinstance(b, (list, tuple)):
        try:
            return sorted(map(json.dumps, a)) == sorted(map(json.dumps, list(b)))
        except TypeError:
            return list(a) == list(b)
    return a == b


def match(findings, viol):
    sig = viol.get("sig")
    if not isinstance(sig, dict):
        return None
    from mc.run import _jsonable

    sig = _jsonable(sig)
    for f in findings:
        m = f.get("match", {})
        if m and all(k in sig and _eq(v, sig[k]) for k, v in m.items()):
            return f
    return None
