"""Render the detection matrix (DESIGN.md section 10) from seeded/*/meta.json and mutants/RESULTS.tsv."""
import glob, json, os
HERE = os.path.dirname(os.path.dirname(os.path.abspath(__file__)))
out = []
out.append("### 10.1 Independently written changes (`seeded/<id>/`, fresh sub-agents given only the property text)\n")
out.append("| change | property | what it needs to manifest (author's README, first line) | pinned suite with change | demo clean/changed | checks run -> result |")
out.append("|---|---|---|---|---|---|")
for mp in sorted(glob.glob(os.path.join(HERE, "seeded", "*", "meta.json"))):
    m = json.load(open(mp))
    d = os.path.dirname(mp)
    needs = m.get("needs", "")
    if not needs:
        rd = os.path.join(d, "README.md")
        if os.path.exists(rd):
            for ln in open(rd):
                ln = ln.strip()
                if ln and not ln.startswith("#"):
                    needs = ln[:160]
                    break
    res = "; ".join(f"{c['check']} {c['tier']}: " + ("**caught** (exit 1)" if c["exit"] == 1 else ("missed" if c["exit"] == 0 else f"harness error {c['exit']}")) for c in m["checks_run"])
    cf = m["confirmed"]
    out.append(f"| {m['name']} | {m['property']} | {needs.replace('|','/')} | {cf['pinned_suite_with_change'].split(' in ')[0]} | {cf['demo_exit_on_clean_tree']}/{cf['demo_exit_with_change']} | {res} |")
out.append("\n### 10.2 Changes written while building (`mutants/*.patch`, diffs against the fixed tree)\n")
out.append("| mutant | property | pinned tests | quick check |")
out.append("|---|---|---|---|")
rp = os.path.join(HERE, "mutants", "RESULTS.tsv")
seen = {}
if os.path.exists(rp):
    for ln in open(rp):
        f = ln.rstrip("\n").split("\t")
        if len(f) >= 5:
            seen[f[0]] = f
NOTES = {
    "c04-index-lt": "equivalent: a chain with equal patch indices is refused by the gap check as well",
    "c04-skip-middle-hash": "equivalent for the property: the hash of a middle container is also verified through its successor's link",
    "c09-ih5-require-group-over-dataset": "differs only in the exception type (ValueError instead of TypeError); the properties speak of success or failure. An earlier 'caught' was an artefact of the harness, since removed",
    "c12-by-alias-default": "not admissible: breaks one of the 66 pinned tests",
    "c12-exclude-none-default": "not admissible: breaks one of the 66 pinned tests",
}
for k in sorted(seen):
    f = seen[k]
    note = f" – {NOTES[f[0]]}" if f[0] in NOTES and f[3] != "rc=1" else ""
    out.append(f"| {f[0]} | {f[1]} | {f[2]} | {'**caught**' if f[3]=='rc=1' else ('not caught' if f[3]=='rc=0' else f[3])} ({f[4]} classes){note} |")
print("\n".join(out))
