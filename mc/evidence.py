"""Write /verif/evidence/<id>.json and validate it against the schema."""
from __future__ import annotations

import json
import os

from mc import env

SCHEMA = "/root/.vp/EVIDENCE.schema.json"
SCHEMA_LOCAL = os.path.join(env.VERIF_DIR, "schemas", "EVIDENCE.schema.json")


def write(pid, tier, seed, level, coverage, assumptions, wall_s, violations, extra=None):
    from mc.run import _jsonable

    doc = {
        "property_id": pid,
        "tier": tier,
        "seed": int(seed),
        "level": level,
        "coverage": _jsonable(coverage),
        "assumptions": list(assumptions),
        "wall_s": float(wall_s),
        "violations": int(violations),
    }
    if extra:
        doc.update(_jsonable(extra))
    try:
        import jsonschema

        sp = SCHEMA if os.path.exists(SCHEMA) else SCHEMA_LOCAL
        jsonschema.validate(doc, json.load(open(sp)))
    except ImportError:
        pass
    if os.environ.get("VERIF_NO_EVIDENCE") == "1":
        return  # mutant / scratch-tree runs must not overwrite the evidence of the real tree
    d = os.path.join(env.VERIF_DIR, "evidence")
    os.makedirs(d, exist_ok=True)
    tmp = os.path.join(d, f".{pid}.json.tmp")
    with open(tmp, "w") as f:
        json.dump(doc, f, indent=1, sort_keys=True)
        f.write("\n")
    os.replace(tmp, os.path.join(d, f"{pid}.json"))
