#!/bin/bash
# usage: mc/tools_run_seeded.sh <patch.diff> <PROPERTY-ID> [more ids...]
# Applies the patch to a scratch worktree of /repo HEAD, runs the quick check(s) with VERIF_REPO pointing at it,
# prints exit codes and VIOLATION lines, removes the worktree.
set -u
patch="$(readlink -f "$1")"; shift
wt=$(mktemp -d /tmp/seedwt-XXXXXX)
rmdir "$wt"
git -C /repo worktree add -q --detach "$wt" HEAD || exit 2
if ! git -C "$wt" apply "$patch"; then echo "PATCH DOES NOT APPLY"; git -C /repo worktree remove --force "$wt"; exit 2; fi
for pid in "$@"; do
  out=$(cd /verif && VERIF_REPO="$wt" VERIF_NO_EVIDENCE=1 ./check "$pid" --tier "${TIER:-quick}" 2>&1)
  rc=$?
  echo "== $pid rc=$rc $(echo "$out" | grep -c '^VIOLATION') violation lines"
  echo "$out" | grep -A1 '^VIOLATION' | head -${SHOW:-6} | cut -c1-400
done
git -C /repo worktree remove --force "$wt"
