"""Explicit-state exploration of real IH5 records against the plain-tree reference.

Used directly by C01 and as the record/history generator of C03, C05, C10.
A state is the history reaching it; `build` replays it on a fresh real record and a fresh
reference tree.  `expand(task)` runs in a worker and checks every enabled op from one state.
"""
from __future__ import annotations

import hashlib
import traceback

from mc import env
from mc.impl import h5ops, ih5

CFGS = {}


def worker_init(cfgs=None):
    CFGS.clear()
    CFGS.update(cfgs or {})
    import metador_core.ih5.record  # noqa: F401
    import metador_core.ih5.manifest  # noqa: F401


# ------------------------------------------------------------------ alphabets


def spell(seed: int):
    """Concrete spelling of the abstract key symbols (seed renames, never changes the space)."""
    pool = [
        ("a", "b", "c", "k"),
        ("a", "ab", "abc", "a"),  # prefix-related keys, attr key equals a node key
        ("x.y", "x", "x.", "~"),
        ("!k", "0", "00", "#"),
        ("~", "}", "|", "k-1"),
        ("B", "b", "A", "_"),
        ("a b".replace(" ", "_"), "a", "a_", "k"),
    ]
    return pool[seed % len(pool)]


def make_cfg(name, seed=0, width="narrow", copies=True, moves=True, req=False, routes=("abs",), max_containers=3,
             kind="ih5", attr_keys=1, bad=False, values=False, relcm=False):
    a, b, c, k = spell(seed)
    if width == "narrow":
        paths = [f"/{a}", f"/{a}/{a}", f"/{b}"]
        extra_dst = [f"/{c}", f"/{b}/{a}", f"/{a}/{c}"]
    elif width == "deep":
        paths = [f"/{a}", f"/{a}/{a}", f"/{a}/{a}/{b}"]
        extra_dst = [f"/{c}"]
    elif width == "repeat":
        # a group name that re-appears deeper in the same path, with another segment in between
        paths = [f"/{a}", f"/{a}/{b}/{a}", f"/{a}/{b}/{a}/{c}"]
        extra_dst = [f"/{c}"]
    else:
        paths = [f"/{a}", f"/{b}", f"/{a}/{a}", f"/{a}/{b}", f"/{b}/{a}", f"/{b}/{b}"]
        extra_dst = [f"/{c}", f"/{a}/{c}"]
    nodes = ["/"] + paths
    keys = [k, a][:attr_keys]
    ops = []
    for r in routes:
        ops += [["set", p, r] for p in paths]
        ops += [["grp", p, r] for p in paths]
        ops += [["del", p, r] for p in paths]
    if bad:
        ops += [["setbad", p, "abs"] for p in paths]
    if values:
        # (the marker value np.void(b"\x7f") itself is the one documented exception and is not a legal value)
        kinds = ["void1", "void2", "void7e", "int8_127", "uint8_127", "bytes7f", "empty", "str"]
        ops += [["setv", p, "abs", kd] for p in paths[:2] for kd in kinds]
        ops += [["sav", n, keys[0], kd] for n in nodes[:2] for kd in kinds[:6]]
        # the reserved value itself, in three spellings: must be refused loudly and leave no trace
        ops += [["setv", paths[0], "abs", kd] for kd in h5ops.MARKER_KINDS]
        ops += [["sav", "/", keys[0], kd] for kd in h5ops.MARKER_KINDS]
    if relcm:
        # copy/move issued on a sub-group with source and destination both relative to it
        par = paths[0]
        leaf = paths[1].split("/")[-1]
        ops += [[kk, par, leaf, dst] for kk in ("cpr", "mvr") for dst in (c, b, f"{c}/{b}")]
        ops += [[kk, "/", par.strip("/"), dst] for kk in ("cpr", "mvr") for dst in (c,)]
    ops += [["sa", n, kk, "abs"] for n in nodes for kk in keys]
    ops += [["da", n, kk, "abs"] for n in nodes for kk in keys]
    if req:
        for r in routes:
            ops += [["rg", p, r] for p in paths]
            ops += [["rd", p, r] for p in paths]
        ops += [["rdm", paths[0], routes[0], how] for how in ("shape", "dtype", "exact")]
    if copies:
        for r in routes:
            ops += [["cp", s, d, r] for s in paths for d in paths + extra_dst if s != d]
    if moves:
        for r in routes:
            ops += [["mv", s, d, r] for s in paths for d in paths + extra_dst if s != d and not d.startswith(s + "/")]
    ops.append(["B"])
    probe = sorted(set(nodes + extra_dst + [f"/{c}/{a}", f"/{a}/{a}/{a}"]))
    return {
        "name": name,
        "kind": kind,
        "ops": ops,
        "max_containers": max_containers,
        "probe": probe,
    }


# ------------------------------------------------------------------ real code + reference in lock-step


def _apply(obj, op, n, is_impl):
    """Returns 'ok', 'fail:<Exc>' or 'timeout'."""
    try:
        if op[0] == "B":
            if is_impl:
                ih5.boundary(obj)
            return "ok"
        if is_impl:
            with env.watchdog(env.step_timeout()):
                h5ops.apply_op(obj, op, n)
        else:
            if op[0] in ("setv", "sav") and op[3] in h5ops.MARKER_KINDS:
                # reference side of the documented exception: the reserved value is refused, nothing changes
                raise ValueError("reserved value")
            if op[0] in ("cp", "mv") and op[3] == "rel":
                # libhdf5 quirk (not tree semantics): H5Ocopy from a non-root location to an
                # absolute destination below that location fails with "message type not found";
                # on a plain tree the relative call means the same as the absolute one
                op = [op[0], op[1], op[2], "abs"]
            h5ops.apply_op(obj, op, n)
        return "ok"
    except env.StepTimeout:
        return "timeout"
    except Exception as e:
        return "fail:" + type(e).__name__


class Pair:
    """A real record and its reference, built from a history."""

    def __init__(self, cfg, hist):
        self.cfg = cfg
        self.rec, self.dir = ih5.new_record(cfg["kind"])
        self.model = ih5.new_model()
        self.n = 0
        self.good = []
        for op in hist:
            self.step(op)

    def step(self, op):
        self.n += 1
        ri = _apply(self.rec, op, self.n, True)
        rm = _apply(self.model, op, self.n, False)
        if rm == "ok":
            self.good.append((op, self.n))
        else:
            # a failed op has no effect on the reference tree by definition: rebuild the
            # reference from the successful ops (guards against partial effects in h5py)
            self.model.close()
            self.model = ih5.new_model()
            for o, n in self.good:
                r = _apply(self.model, o, n, False)
                assert r == "ok", (o, r)
        return ri, rm

    def close(self):
        ih5.discard(self.rec, self.dir)
        try:
            self.model.close()
        except Exception:
            pass


def enabled(cfg, hist):
    nb = sum(1 for op in hist if op[0] == "B")
    return [op for op in cfg["ops"] if op[0] != "B" or nb + 1 < cfg["max_containers"]]


def _digest(x):
    return hashlib.blake2b(repr(x).encode(), digest_size=16).digest()


def _viol(cfg, hist, op, kind, detail, impl=None, model=None):
    return {
        "sig": {
            "kind": kind,
            "op": op[0],
            "impl": (impl or "").split(":")[0],
            "model": (model or "").split(":")[0],
            "ops": "·".join(o[0] for o in hist + [op]),
        },
        "driver": "treeexp",
        "config": cfg,
        "history": hist + [op],
        "step": len(hist),
        "what": detail,
    }


def check_last(cfg, pair, hist, op, base_obs):
    """Apply op to a pair that is in state `hist`; judge the step. Returns (status, viol)."""
    ri, rm = pair.step(op)
    if ri == "timeout":
        return "viol", _viol(cfg, hist, op, "nonterm", f"step did not terminate within {env.step_timeout()}s", ri, rm)
    if (ri == "ok") != (rm == "ok"):
        return "viol", _viol(cfg, hist, op, "outcome", f"impl {ri} but plain tree {rm}", ri, rm)
    try:
        with env.watchdog(env.step_timeout()):
            oi = h5ops.observe(pair.rec, cfg["probe"])
    except env.StepTimeout:
        return "viol", _viol(cfg, hist, op, "observe-nonterm", "reading the record did not terminate", ri, rm)
    except Exception as e:
        return "viol", _viol(cfg, hist, op, "observe-raised", f"reading the record raised {type(e).__name__}: {e}", ri, rm)
    om = h5ops.observe(pair.model, cfg["probe"])
    if rm == "ok":
        if oi != om:
            return "viol", _viol(cfg, hist, op, "view", _diff(oi, om), ri, rm)
        return "ok", None
    # both failed: the view must be untouched
    if oi != base_obs:
        return "viol", _viol(cfg, hist, op, "failed-op-changed-view", _diff(oi, base_obs), ri, rm)
    assert om == base_obs
    return "fail", None


def _diff(oi, om):
    try:
        a, b = oi[0], om[0]
        if a != b:
            sa, sb = set(a[1]) | {("/attrs", a[0])}, set(b[1]) | {("/attrs", b[0])}
            return {"only_impl": sorted(sa - sb, key=repr)[:6], "only_ref": sorted(sb - sa, key=repr)[:6]}
        if oi[1] != om[1] or oi[2] != om[2]:
            return {"inconsistent listings": [oi[1], oi[2]]}
        pa, pb = oi[3], om[3]
        d = [(x, y) for x, y in zip(pa[0], pb[0]) if x != y][:4]
        return {"probe_diff": d, "visit": [pa[1], pb[1]] if pa[1] != pb[1] else None, "len": [pa[2], pb[2]]}
    except Exception:
        return {"diff": "unprintable"}


def expand(task):
    """Worker: from state `hist` try every enabled op. Returns list of (op, status, key, viol, viewdigest)."""
    cfg_name, hist = task
    cfg = CFGS[cfg_name]
    out = []
    pair = None
    base_obs = None
    base_key = None
    try:
        for op in enabled(cfg, hist):
            if pair is None:
                pair = Pair(cfg, hist)
                if base_obs is None:
                    base_obs = h5ops.observe(pair.model, cfg["probe"])
                    base_key = ih5.raw_key(pair.rec)
            status, viol = check_last(cfg, pair, hist, op, base_obs)
            if status == "viol":
                out.append((op, "viol", None, viol, None))
                pair.close()
                pair = None
                continue
            key = ih5.raw_key(pair.rec)
            if status == "ok":
                out.append((op, "ok", key, None, _digest(h5ops.dump_visit(pair.model))))
                pair.close()
                pair = None
            else:
                if key != base_key:
                    out.append((op, "failchg", key, None, None))
                    pair.close()
                    pair = None
                else:
                    out.append((op, "fail", None, None, None))
    finally:
        if pair is not None:
            pair.close()
    return out


def init_key(cfg_name):
    cfg = CFGS[cfg_name]
    p = Pair(cfg, [])
    try:
        return ih5.raw_key(p.rec)
    finally:
        p.close()


def check_history(task):
    """Worker / replay: run a whole history with the full oracle at every step.

    task = (cfg, history[, check_from]): steps before `check_from` are only compared by outcome
    (their views are covered by other histories sharing the prefix).
    Returns (viol | None, number of steps fully checked).
    """
    cfg, hist = task[0], task[1]
    check_from = task[2] if len(task) > 2 else 0
    if isinstance(cfg, str):
        cfg = CFGS[cfg]
    hist = [list(o) for o in hist]
    pair = Pair(cfg, [])
    checked = 0
    try:
        base_obs = None
        for i, op in enumerate(hist):
            if i < check_from:
                ri, rm = pair.step(op)
                if ri == "timeout" or (ri == "ok") != (rm == "ok"):
                    return _viol(cfg, hist[:i], op, "outcome", f"impl {ri} but plain tree {rm}", ri, rm), checked
                continue
            if base_obs is None:
                base_obs = h5ops.observe(pair.model, cfg["probe"])
            status, viol = check_last(cfg, pair, hist[:i], op, base_obs)
            checked += 1
            if status == "viol":
                return viol, checked
            if status == "ok":
                base_obs = None
        return None, checked
    finally:
        pair.close()


def bfs(pool, cfg_name, cfg, depth, budget_s=None, collect=None, t0=None):
    """Level-synchronous BFS. Returns dict with counters, violations, completed depth."""
    import time

    t0 = t0 or time.time()
    seen = {pool.map("init_key", [cfg_name])[0]}
    frontier = [[]]
    violations = []
    transitions = 0
    views = set()
    outcomes = {}
    completed = 0
    capped = False
    samples = []
    per_level = []
    for lvl in range(1, depth + 1):
        if budget_s is not None and time.time() - t0 > budget_s:
            capped = True
            break
        res = pool.map("expand", [(cfg_name, h) for h in frontier], chunk=2, item_deadline=120.0)
        nxt = []
        for hist, rlist in zip(frontier, res):
            if rlist == "__HANG__":
                violations.append(_viol(cfg, hist, ["?"], "worker-hang", "expanding this state hung the worker"))
                continue
            for op, status, key, viol, vd in rlist:
                transitions += 1
                outcomes[(op[0], status)] = outcomes.get((op[0], status), 0) + 1
                if viol is not None:
                    violations.append(viol)
                    continue
                if vd is not None:
                    views.add(vd)
                if key is not None and key not in seen:
                    seen.add(key)
                    nxt.append(hist + [op])
                    if collect is not None:
                        collect.append(hist + [op])
        frontier = nxt
        completed = lvl
        per_level.append(len(seen))
        if frontier:
            samples = [frontier[0], frontier[len(frontier) // 2], frontier[-1]]
    return {
        "states": len(seen),
        "transitions": transitions,
        "views": len(views),
        "outcomes": {f"{k[0]}:{k[1]}": v for k, v in sorted(outcomes.items())},
        "completed_depth": completed,
        "capped": capped,
        "violations": violations,
        "samples": samples,
        "states_per_level": per_level,
    }
