"""Operations and observations that work on any H5-like object (h5py.File, IH5Record).

The same call shapes are issued against the implementation and against the reference
(`h5py.File` on the in-memory core driver), so agreement is judged on identical programs.

An op is a JSON-friendly list:  [kind, arg..., route]
  set p r | grp p r | del p r | sa n k r | da n k r | cp s d r | mv s d r | rg p r | rd p r | B
route 'abs': call on the file object with the absolute path;
route 'rel': fetch the parent group handle first and use the last path segment.
"""
from __future__ import annotations

import numpy as np


def is_group(o) -> bool:
    return hasattr(o, "keys") and hasattr(o, "create_group")


def _split(p: str):
    segs = p.strip("/").split("/")
    parent = "/" + "/".join(segs[:-1])
    return parent, segs[-1]


def _target(f, p: str, route: str):
    """Return (group handle, key) to use for path p."""
    if route == "abs":
        return f, p
    if route.startswith("via:"):
        # the absolute path p, addressed through the handle of ANOTHER group
        return f[route[4:]], p
    parent, last = _split(p)
    return f[parent], last


def apply_op(f, op, val):
    """Apply one tree op to H5-like file object f. `val` is the fresh value for writes."""
    k = op[0]
    if k == "set":
        g, key = _target(f, op[1], op[2])
        g[key] = val
    elif k == "setv":  # [setv, path, route, kind]: values that look like / border on the IH5 deletion marker
        g, key = _target(f, op[1], op[2])
        g[key] = special_value(op[3])
    elif k == "sav":  # [sav, node, key, kind]
        f[op[1]].attrs[op[2]] = special_value(op[3])
    elif k in ("cpr", "mvr"):  # [cpr, parent, srckey, dstkey]: source AND destination relative to the parent group
        g = f[op[1]]
        (g.copy if k == "cpr" else g.move)(op[2], op[3])
    elif k == "setbig":  # a payload larger than typical I/O chunk sizes (op[3] = number of bytes)
        g, key = _target(f, op[1], op[2])
        n = int(op[3])
        g[key] = np.void(bytes((val + 31 * i) % 251 for i in range(n)))
    elif k == "setbad":  # a write that must fail (value has no HDF5 equivalent) - and leave no trace
        g, key = _target(f, op[1], op[2])
        g[key] = {"bad": object()}
    elif k == "grp":
        g, key = _target(f, op[1], op[2])
        g.create_group(key)
    elif k == "del":
        g, key = _target(f, op[1], op[2])
        del g[key]
    elif k == "sa":
        f[op[1]].attrs[op[2]] = val
    elif k == "da":
        del f[op[1]].attrs[op[2]]
    elif k == "cp":
        if op[3] == "abs":
            f.copy(op[1], op[2])
        else:
            sp, sk = _split(op[1])
            f[sp].copy(sk, op[2])
    elif k == "mv":
        if op[3] == "abs":
            f.move(op[1], op[2])
        else:
            sp, sk = _split(op[1])
            f[sp].move(sk, op[2])
    elif k == "rg":
        g, key = _target(f, op[1], op[2])
        g.require_group(key)
    elif k == "rd":
        g, key = _target(f, op[1], op[2])
        g.require_dataset(key, shape=(), dtype="i8")
    elif k == "rdm":  # require_dataset asking for another shape / an incompatible type than an existing dataset has
        g, key = _target(f, op[1], op[2])
        if op[3] == "shape":
            g.require_dataset(key, shape=(2,), dtype="i8")
        elif op[3] == "dtype":
            g.require_dataset(key, shape=(), dtype="S3")
        else:  # exact type asked for
            g.require_dataset(key, shape=(), dtype="i4", exact=True)
    elif k == "cpo":  # copy with options: [cpo, src, dst, {opts}]
        f.copy(op[1], op[2], **op[3])
    else:
        raise AssertionError(f"unknown op {op}")


def special_value(kind):
    import h5py

    return {
        "void1": np.void(b"A"),
        "void2": np.void(b"\x7f\x7f"),
        "void7e": np.void(b"\x7e"),
        "int8_127": np.int8(127),
        "uint8_127": np.uint8(127),
        "bytes7f": np.bytes_(b"\x7f"),
        "empty": h5py.Empty("f"),
        "str": "x",
        "marker": np.void(b"\x7f"),
        # the same stored value (opaque scalar, one byte 0x7f) spelled as 0-d arrays
        "marker_arr0": np.array(np.void(b"\x7f")),
        "marker_arrV1": np.array(b"\x7f", dtype="V1"),
    }[kind]


# the single reserved value (in every spelling): the documented contract is a loud refusal without effect
MARKER_KINDS = ("marker", "marker_arr0", "marker_arrV1")


def val_repr(v):
    """Comparable representation of a dataset / attribute value."""
    if isinstance(v, np.ndarray):
        if v.dtype.kind in "iuf":
            return ("arr", v.shape, tuple(v.reshape(-1).tolist()))
        return ("arr", v.shape, v.tobytes().hex())
    if isinstance(v, (np.integer, int)) and not isinstance(v, bool):
        return int(v)
    if isinstance(v, (np.floating, float)):
        return float(v)
    if isinstance(v, np.void):
        return ("void", v.tobytes().hex())
    if isinstance(v, bytes):
        return ("bytes", v.hex())
    if isinstance(v, str):
        return ("str", v)
    if type(v).__name__ == "Empty":
        return ("empty", str(getattr(v, "dtype", "")))
    return ("other", repr(v))


def attrs_repr(o):
    return tuple(sorted((str(k), val_repr(v)) for k, v in o.attrs.items()))


def node_repr(name, o):
    if is_group(o):
        return (name, "G", None, attrs_repr(o))
    return (name, "D", val_repr(o[()]), attrs_repr(o))


def dump_visit(f):
    out = []
    f.visititems(lambda name, o: out.append(node_repr(name, o)))
    out.sort(key=lambda t: t[0])
    return (attrs_repr(f), tuple(out))


def dump_rec(f):
    """Same content as dump_visit, obtained by keys() + [] recursion."""
    out = []

    def rec(g, pref):
        for k in list(g.keys()):
            o = g[k]
            name = f"{pref}{k}"
            out.append(node_repr(name, o))
            if is_group(o):
                rec(o, name + "/")

    rec(f, "")
    out.sort(key=lambda t: t[0])
    return (attrs_repr(f), tuple(out))


def dump_items(f):
    """Same content through items()/values() and absolute addressing."""
    out = []

    def rec(g, pref):
        ks = list(g.keys())
        vs = list(g.values())
        its = list(g.items())
        assert [k for k, _ in its] == ks and len(vs) == len(ks)
        for k, o in its:
            name = f"{pref}{k}"
            o2 = f["/" + name]
            out.append(node_repr(name, o2))
            if is_group(o):
                rec(o, name + "/")

    rec(f, "")
    out.sort(key=lambda t: t[0])
    return (attrs_repr(f), tuple(out))


def probes(f, paths, dump=None):
    """Membership / get / len / name / parent answers for a fixed list of absolute paths."""
    out = []
    datasets = set()
    if dump is not None:
        datasets = {"/" + n for (n, kind, _, _) in dump[1] if kind == "D"}
    for p in paths:
        # a path that runs *through* a dataset is not a tree position: h5py answers False/None,
        # IH5 raises ValueError; the property does not speak about it -> not probed
        segs = p.strip("/").split("/")
        through = False
        for i in range(1, len(segs)):
            ap = "/" + "/".join(segs[:i])
            if dump is not None:
                if ap in datasets:
                    through = True
                    break
                continue
            anc = f.get(ap)
            if anc is None:
                break
            if not is_group(anc):
                through = True
                break
        if through:
            out.append((p, "through-dataset"))
            continue
        inn = p in f
        g = f.get(p)
        rel = p.lstrip("/")
        inn_rel = rel in f if rel else None
        info = None
        if g is not None:
            if is_group(g):
                info = ("G", len(g), tuple(sorted(g.keys())), g.name, tuple(sorted(iter(g))))
            else:
                info = ("D", g.name, val_repr(g[()]))
            par = g.parent
            info = info + (par.name, tuple(sorted(par.keys())), attrs_repr(par))
        out.append((p, bool(inn), inn_rel, g is not None, info))
    # visit (names only)
    names = []
    f.visit(lambda n: names.append(n))
    # a callback result other than None ends the walk and is handed back - also a falsy one
    early = []
    for ret in (0, False, ""):
        calls = []

        def cb(n, o=None, ret=ret, calls=calls):
            calls.append(n)
            return ret

        r1 = f.visit(cb)
        n1 = len(calls)
        del calls[:]
        r2 = f.visititems(cb)
        early.append((repr(r1), n1, repr(r2), len(calls)))
    return (tuple(out), tuple(sorted(names)), len(f), tuple(early))


def observe(f, paths):
    """Everything a reader can see; must be equal for implementation and reference."""
    a = dump_visit(f)
    b = dump_rec(f)
    c = dump_items(f)
    return (a, b == a, c == a, probes(f, paths, a))
