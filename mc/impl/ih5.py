"""Adapter for real IH5 records: build from history, boundary, raw persisted-state key."""
from __future__ import annotations

import hashlib
import os

import h5py
import numpy as np

from mc import env
from mc.impl import h5ops

_n = [0]


def new_model():
    """Reference tree: plain h5py file on the in-memory core driver."""
    _n[0] += 1
    return h5py.File(f"verif-model-{os.getpid()}-{_n[0]}", "w", driver="core", backing_store=False)


def record_class(kind: str):
    if kind == "mf":
        from metador_core.ih5.manifest import IH5MFRecord

        return IH5MFRecord
    from metador_core.ih5.record import IH5Record

    return IH5Record


def new_record(kind: str = "ih5", name: str = "rec"):
    d = env.fresh_dir("r")
    return record_class(kind)(os.path.join(d, name), "w"), d


def boundary(rec):
    rec.commit_patch()
    rec.create_patch()


def discard(rec, d=None):
    """Close a record without committing and remove its directory."""
    try:
        rec.close(commit=False)
    except BaseException:
        try:
            for f in list(getattr(rec, "__files__", [])):
                try:
                    f.close()
                except BaseException:
                    pass
        except BaseException:
            pass
    if d:
        env.rmtree(d)


def _rawval(v):
    # harness-written values are ints (erased, see DESIGN 2.1); everything else verbatim
    if isinstance(v, (np.integer, int)) and not isinstance(v, (bool, np.bool_)):
        return "v"
    if isinstance(v, np.ndarray) and v.dtype.kind in "iu":
        return ("arr", v.shape)
    return h5ops.val_repr(v)


def raw_dump_file(f: h5py.File):
    items = []

    def vis(name, o):
        if isinstance(o, h5py.Group):
            items.append((name, "G", tuple(sorted((k, _rawval(v)) for k, v in o.attrs.items()))))
        else:
            items.append((name, "D", _rawval(o[()]), tuple(sorted((k, _rawval(v)) for k, v in o.attrs.items()))))

    f.visititems(vis)
    items.sort(key=lambda t: t[0])
    return (tuple(sorted((k, _rawval(v)) for k, v in f.attrs.items())), tuple(items))


def raw_key(rec, extra=()):
    """Canonical key of the persisted state of an open record (uninterpreted raw dump)."""
    files = rec.__files__
    key = (tuple(raw_dump_file(f) for f in files), bool(rec._has_writable), tuple(extra))
    return hashlib.blake2b(repr(key).encode(), digest_size=16).digest()


def raw_shape(rec):
    return tuple(raw_dump_file(f) for f in rec.__files__)
