#!/bin/bash
# usage: mc/tools_confirm_seeded.sh <deliverable dir with patch.diff demo.py README.md | seeded/<name>> <name> <PROPERTY-ID> [more check ids]
# Confirms an independently written change (pinned tests still pass, demo passes on clean / fails on changed tree),
# runs the given quick checks against it in a scratch worktree (VERIF_REPO), and stores everything as
# /verif/seeded/<name>/ (patch.diff, demo.py, README.md, meta.json).
set -u
src="$(readlink -f "$1")"; name="$2"; shift 2
prop="$1"
out=/verif/seeded/$name; mkdir -p "$out"
if [ "$src" != "$out" ]; then cp "$src/patch.diff" "$src/demo.py" "$out/"; [ -f "$src/README.md" ] && cp "$src/README.md" "$out/"; fi
wt=$(mktemp -d /tmp/seedwt-XXXXXX); rmdir "$wt"
git -C /repo worktree add -q --detach "$wt" HEAD || exit 2
demo_clean=$(cd /tmp && PYTHONPATH="$wt/src" timeout 300 /venv/bin/python "$out/demo.py" >/dev/null 2>&1; echo $?)
if ! git -C "$wt" apply "$out/patch.diff" 2>/dev/null && ! (cd "$wt" && patch -s -p1 -F3 < "$out/patch.diff"); then echo "PATCH DOES NOT APPLY"; git -C /repo worktree remove --force "$wt"; exit 2; fi
demo_mut=$(cd /tmp && PYTHONPATH="$wt/src" timeout 300 /venv/bin/python "$out/demo.py" >/dev/null 2>&1; echo $?)
pinned=$(cd "$wt" && PYTHONPATH="$wt/src" /venv/bin/python -m pytest -q -p no:cacheprovider --timeout=900 --continue-on-collection-errors 2>&1 | tail -1)
tmp=$(mktemp)
for pid in "$@"; do
  o=$(cd /verif && VERIF_REPO="$wt" VERIF_NO_EVIDENCE=1 ./check "$pid" --tier "${TIER:-quick}" 2>&1); rc=$?
  nv=$(echo "$o" | grep -c '^VIOLATION')
  first=$(echo "$o" | grep -A1 '^VIOLATION' | sed -n 2p | cut -c1-400)
  printf '%s\t%s\t%s\t%s\t%s\n' "$pid" "${TIER:-quick}" "$rc" "$nv" "$first" >> "$tmp"
  echo "== $name: check $pid rc=$rc violations=$nv"
  echo "$first" | cut -c1-300
done
git -C /repo worktree remove --force "$wt"
head=$(git -C /repo log --format=%h -1)
/venv/bin/python /verif/mc/tools_seeded_meta.py "$out" "$name" "$prop" "$head" "$demo_clean" "$demo_mut" "$pinned" "$tmp"
rm -f "$tmp"
echo "demo clean=$demo_clean mut=$demo_mut pinned='$pinned'"
