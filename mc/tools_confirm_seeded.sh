#!/bin/bash
# usage: mc/tools_confirm_seeded.sh <deliverable dir with patch.diff demo.py README.md> <name> <PROPERTY-ID> [more check ids]
# Confirms an independently written change (pinned tests still pass, demo passes on clean / fails on changed tree),
# runs the given quick checks against it, and stores everything as /verif/seeded/<name>/ (patch.diff, demo.py, README.md, meta.json).
set -u
src="$(readlink -f "$1")"; name="$2"; shift 2
prop="$1"
out=/verif/seeded/$name; mkdir -p "$out"
cp "$src/patch.diff" "$src/demo.py" "$out/"; [ -f "$src/README.md" ] && cp "$src/README.md" "$out/"
wt=$(mktemp -d /tmp/seedwt-XXXXXX); rmdir "$wt"
git -C /repo worktree add -q --detach "$wt" HEAD || exit 2
demo_clean=$(cd /tmp && PYTHONPATH="$wt/src" timeout 300 /venv/bin/python "$out/demo.py" >/dev/null 2>&1; echo $?)
if ! git -C "$wt" apply "$out/patch.diff"; then echo "PATCH DOES NOT APPLY"; git -C /repo worktree remove --force "$wt"; exit 2; fi
demo_mut=$(cd /tmp && PYTHONPATH="$wt/src" timeout 300 /venv/bin/python "$out/demo.py" >/dev/null 2>&1; echo $?)
pinned=$(cd "$wt" && PYTHONPATH="$wt/src" /venv/bin/python -m pytest -q -p no:cacheprovider --timeout=900 --continue-on-collection-errors 2>&1 | tail -1)
results=""
for pid in "$@"; do
  o=$(cd /verif && VERIF_REPO="$wt" VERIF_NO_EVIDENCE=1 ./check "$pid" --tier "${TIER:-quick}" 2>&1); rc=$?
  nv=$(echo "$o" | grep -c '^VIOLATION')
  first=$(echo "$o" | grep -A1 '^VIOLATION' | sed -n 2p | cut -c1-300 | sed 's/"/\\"/g')
  results="$results{\"check\":\"$pid\",\"tier\":\"${TIER:-quick}\",\"exit\":$rc,\"violation_lines\":$nv,\"first\":\"$first\"},"
  echo "== $name: check $pid rc=$rc violations=$nv"
  echo "$o" | grep -A1 '^VIOLATION' | sed -n 2p | cut -c1-300
done
git -C /repo worktree remove --force "$wt"
head=$(git -C /repo log --format=%h -1)
cat > "$out/meta.json" <<JSON
{
 "property": "$prop",
 "name": "$name",
 "origin": "fresh sub-agent given only the property text and a scratch worktree",
 "repo_head": "$head",
 "confirmed": {"demo_exit_on_clean_tree": $demo_clean, "demo_exit_with_change": $demo_mut, "pinned_suite_with_change": "$pinned"},
 "checks_run": [${results%,}]
}
JSON
echo "demo clean=$demo_clean mut=$demo_mut pinned='$pinned'"
