"""C14 helpers (2/2): the monoid laws evaluated on real partial models; worker entry points.

A *case* is plain JSON data:

  {"kind": "pair" | "triple" | "single" | "harvest",
   "factory": "plain" | "schema" | "installed", "cls": <grammar class id>,
   "specs": [spec, ...], "modes": [construction mode, ...], "ow": bool}

`run_case(case)` builds every operand fresh from its spec in its construction mode, runs the real
merge code and returns the list of *findings* (law that failed + where).  The bulk workers call
the same check functions over complete index ranges.
"""
from __future__ import annotations

import mc.env as env  # noqa: F401  (NumPy shim first)

import itertools
import json
import os
import time

from mc import c14_model as M
from metador_core.schema.partial import PartialModel

_CFG = {"tier": "quick", "seed": 0}
_SPACES = {}


def worker_init(tier="quick", seed=0):
    _CFG.update(tier=tier, seed=seed)
    # register the harness schemas + harvesters once (the way notebooks do it)
    for F in M.SCHEMA_LIKE:
        for cid in M.class_ids(F):
            M.harvester_class(F, cid)


def space(factory, cid, cap):
    """All instances of the class for the given cap (shrunk corpora, full cross product)."""
    key = (factory, cid, cap, _CFG["seed"])
    if key not in _SPACES:
        corp = M.shrink(M.corpora(factory, cid, _CFG["seed"]), cap)
        _SPACES[key] = (M.instances(corp), corp)
    return _SPACES[key][0]


def space_corpora(factory, cid, cap):
    space(factory, cid, cap)
    return _SPACES[(factory, cid, cap, _CFG["seed"])][1]


# =====================================================================================
# executing merges and judging outcomes
# =====================================================================================


def merge2(P, x, y, ow):
    """x . y through the public API: `merge_with` on a partial, `P.merge` if x is a complete object."""
    if isinstance(x, PartialModel):
        return x.merge_with(y, allow_overwrite=ow)
    return P.merge(x, y, allow_overwrite=ow)


def _outcome(fn):
    """("ok", canon, result, plain) | ("err", None, exception, None) - only success/failure is judged."""
    try:
        r = fn()
        pl = M.observe(r)
        return ("ok", M.canon(pl), r, pl)
    except Exception as e:  # noqa: BLE001  (StepTimeout is a BaseException and passes through)
        return ("err", None, e, None)


def _same(o1, o2):
    return o1[0] == o2[0] and (o1[0] == "err" or o1[1] == o2[1])


def _show(o):
    return o[1] if o[0] == "ok" else f"raised {type(o[2]).__name__}: {str(o[2])[:160]!r}"


def _dig(pl, path):
    for k in path:
        if not isinstance(pl, dict) or k not in pl:
            return None
        pl = pl[k]
    return pl


def _overlap_kind(cid, specs):
    """Kinds of the top-level fields provided by >= 2 operands (all provided ones if none)."""
    cnt = {}
    for s in specs:
        for f in s:
            cnt[f] = cnt.get(f, 0) + 1
    fs = [f for f, c in cnt.items() if c >= 2] or list(cnt)
    return "+".join(sorted({M.field_kind(cid, (f,)) for f in fs})) or "(none)"


def _judge(cid, specs, accepted, got):
    """None if `got` is an acceptable outcome, else (field_kind, expected, observed)."""
    if any(_same(a, got) for a in accepted):
        return None
    oks = [a for a in accepted if a[0] == "ok"]
    if got[0] == "ok" and oks:
        d = M.first_diff(M.plain(oks[0][2]), got[3])
        return (M.field_kind(cid, d[0]), d[1], d[2])
    if got[0] == "err":
        return (_overlap_kind(cid, specs), "value", "error:" + type(got[2]).__name__)
    # documented: the merge raises; observed: a value
    path = accepted[0][2]
    leaf = _dig(got[3], path)
    return (M.field_kind(cid, path), "error", "missing" if leaf is None else M.canon(leaf))


def _finding(law, kind_exp_obs, what):
    k, e, o = kind_exp_obs
    return {"law": law, "field_kind": k, "expected": e, "observed": o, "what": what}


def ref_eval(tree, ow, strict, ncls):
    """Reference value of a parenthesised merge, e.g. (x, (y, z))."""
    if isinstance(tree, dict):
        return tree
    a, b = tree
    return M.ref_merge(ref_eval(a, ow, strict, ncls), ref_eval(b, ow, strict, ncls), ow, strict, ncls)


def ref_accepted(tree, ow, got=None):
    """Acceptable outcomes [("ok", canon, spec) | ("err", None, conflict path)], documented reading first.

    Two points are left open by the property and accepted either way (see c14_model.ref_merge and the
    driver's assumptions): an EQUAL scalar provided twice (raise / keep) and the class of a merged
    nested value (left / more specific; matters only for unrelated sibling classes).
    """
    outs = []
    for ncls in ("left", "specific"):
        for strict in (True, False):
            try:
                acc = ref_eval(tree, ow, strict, ncls)
                o = ("ok", M.canon(M.plain(acc)), acc)
            except M.Conflict as c:
                o = ("err", None, c.args[0])
            if got is not None and _same(o, got):
                return [o]  # the observed outcome is an accepted one: no need for the other readings
            if not any(_same(o, p) for p in outs):
                outs.append(o)
    return outs


def assoc_claimed(specs):
    """The property claims associativity only where the classes at each nested position form a chain."""
    seen = {}

    def visit(spec, path):
        for f, v in spec.items():
            for m in M._nested(v):
                # list items are concatenated, never merged with each other: no position to relate
                if isinstance(v, dict) and "M" in v:
                    seen.setdefault(path + (f,), set()).add(m["M"])
                    visit(m["f"], path + (f,))

    for s in specs:
        visit(s, ())
    return all(M.related(a, b) for cs in seen.values() for a in cs for b in cs)


_EXP = {}


def _expected_canon(spec):
    """canon(plain(spec)), memoised per spec object (the object is kept, so its id stays unique)."""
    hit = _EXP.get(id(spec))
    if hit is not None and hit[0] is spec:
        return hit[1]
    if len(_EXP) > 20000:
        _EXP.clear()
    c = M.canon(M.plain(spec))
    _EXP[id(spec)] = (spec, c)
    return c


PYDANTIC_MODES = ("kw", "parse_obj", "parse_json", "parse_yaml")  # plain parsing, no metador conversion


class Unbuildable(Exception):
    """A (library-conversion) construction mode failed for a legal spec; carries the finding."""


def _operands(F, cid, specs, modes):
    """Fresh operands + their snapshots; construction findings."""
    ops, snaps, finds = [], [], []
    for i, (s, m) in enumerate(zip(specs, modes)):
        try:
            o = M.build(F, cid, m, s)
        except Exception as e:  # noqa: BLE001
            if m in PYDANTIC_MODES:
                raise  # the corpus / harness is wrong, not the code under test
            raise Unbuildable(
                _finding(
                    "construction-keeps-values",
                    (_overlap_kind(cid, (s,)), "value", "error:" + type(e).__name__),
                    f"operand {i}: obtaining {s} by {m} raised {type(e).__name__}: {str(e)[:160]!r}",
                )
            )
        sn = M.snapshot(o)
        exp = _expected_canon(s)
        if sn[0] != exp:
            if m in PYDANTIC_MODES:
                # plain pydantic parsing does not give back what was put in: the corpus is wrong
                raise RuntimeError(f"C14 harness: {F}/{cid} {m} of {s} gives {sn[0]}, expected {exp}")
            d = M.first_diff(M.plain(s), M.observe(o))
            finds.append(
                _finding(
                    "construction-keeps-values",
                    (M.field_kind(cid, d[0]), d[1], d[2]),
                    f"operand {i} obtained by {m} from {s} is {sn[0]}",
                )
            )
        ops.append(o)
        snaps.append(sn)
    return ops, snaps, finds


def _mutations(cid, ops, snaps, modes):
    out = []
    for i, (o, before) in enumerate(zip(ops, snaps)):
        after = M.snapshot(o)
        if after == before:
            continue
        if after[0] != before[0]:
            d = M.first_diff(before[2], after[2])
            out.append(
                _finding(
                    "operands-unchanged",
                    (M.field_kind(cid, d[0]), d[1], d[2]),
                    f"operand {i} ({modes[i]}) was {before[0]} before the merge and is {after[0]} afterwards",
                )
            )
        else:
            out.append(
                _finding(
                    "operands-unchanged",
                    ("(identity)", "same nested objects", "nested object replaced or rewired"),
                    f"operand {i} ({modes[i]}): same content but a nested object/list/set was exchanged",
                )
            )
    return out


def check_pair(F, cid, sx, sy, mx, my, ow, stats=None):
    P = M.partial_class(F, cid)
    specs, modes = (sx, sy), (mx, my)
    (X, Y), snaps, out = _operands(F, cid, specs, modes)
    # a conversion asked for earlier on an operand must not influence what the merge result converts to
    for o in (X, Y):
        if isinstance(o, PartialModel):
            try:
                o.from_partial()
            except Exception:  # noqa: BLE001  (incomplete operands do not convert)
                pass
    got = _outcome(lambda: merge2(P, X, Y, ow))
    got_n = _outcome(lambda: P.merge(X, Y, allow_overwrite=ow))
    if not ow:
        # not passing the flag at all = no overwrite permission given
        got_d = _outcome(lambda: X.merge_with(Y) if isinstance(X, PartialModel) else P.merge(X, Y))
        got_dn = _outcome(lambda: P.merge(X, Y))
    out += _mutations(cid, (X, Y), snaps, modes)
    acc = ref_accepted((sx, sy), ow, got)
    law = "left-identity" if not sx else "right-identity" if not sy else "result-equals-reference"
    j = _judge(cid, specs, acc, got)
    if j:
        out.append(_finding(law, j, f"x.y = {_show(got)}; documented: {_show_acc(acc)}"))
    elif got[0] == "ok":
        m = next((a for a in acc if _same(a, got)), None)
        if m is not None and M.is_complete(cid, m[2]):
            c = M.complete_object(F, cid, m[2])
            conv = _outcome(lambda: got[2].from_partial())
            jj = _judge(cid, specs, [("ok", M.snapshot(c)[0], m[2])], conv)
            if jj:
                out.append(_finding("merge-result-converts", jj, f"(x.y).from_partial() = {_show(conv)} for x.y = {_show(got)} (from_partial() had been called on the operands before)"))
    d = _differ(cid, specs, got, got_n)
    if d:
        out.append(_finding("merge()-is-fold-of-merge_with", d, f"merge_with: {_show(got)}; P.merge(x, y): {_show(got_n)}"))
    if not ow:
        for o, how in ((got_d, "x.merge_with(y)"), (got_dn, "P.merge(x, y)")):
            d = _differ(cid, specs, got, o)
            if d:
                out.append(
                    _finding("no-flag-means-no-overwrite", d, f"allow_overwrite=False: {_show(got)}; {how} without the flag: {_show(o)}")
                )
    if stats is not None:
        stats["merges"] += 2 if ow else 4
        stats[got[0]] += 1
    return out


def _differ(cid, specs, o1, o2):
    """None if the two observed outcomes agree, else (field_kind, first, second)."""
    if _same(o1, o2):
        return None
    if o1[0] == "ok" and o2[0] == "ok":
        d = M.first_diff(o1[3], o2[3])
        return (M.field_kind(cid, d[0]), d[1], d[2])
    return (_overlap_kind(cid, specs), _short(o1), _short(o2))


def _short(o):
    return "value" if o[0] == "ok" else "error:" + type(o[2]).__name__


def _show_acc(acc):
    return " or ".join("raise" if a[0] == "err" else a[1] for a in acc)


def check_triple(F, cid, sx, sy, sz, mx, my, mz, ow, stats=None):
    P = M.partial_class(F, cid)
    specs, modes = (sx, sy, sz), (mx, my, mz)
    (X, Y, Z), snaps, out = _operands(F, cid, specs, modes)
    o_xy = _outcome(lambda: merge2(P, X, Y, ow))
    o_l = _outcome(lambda: merge2(P, o_xy[2], Z, ow)) if o_xy[0] == "ok" else o_xy
    o_yz = _outcome(lambda: merge2(P, Y, Z, ow))
    o_r = _outcome(lambda: merge2(P, X, o_yz[2], ow)) if o_yz[0] == "ok" else o_yz
    o_n = _outcome(lambda: P.merge(X, Y, Z, allow_overwrite=ow))
    out += _mutations(cid, (X, Y, Z), snaps, modes)
    acc_l = ref_accepted(((sx, sy), sz), ow, o_l)
    acc_r = ref_accepted((sx, (sy, sz)), ow, o_r)
    j = _judge(cid, specs, acc_l, o_l)
    if j:
        out.append(_finding("result-equals-reference", j, f"(x.y).z = {_show(o_l)}; documented: {_show_acc(acc_l)}"))
    j = _judge(cid, specs, acc_r, o_r)
    if j:
        out.append(_finding("result-equals-reference", j, f"x.(y.z) = {_show(o_r)}; documented: {_show_acc(acc_r)}"))
    if assoc_claimed(specs):
        d = _differ(cid, specs, o_l, o_r)
        if d:
            # self-check: never blame the code for a law the reference itself does not obey
            full_l, full_r = ref_accepted(((sx, sy), sz), ow), ref_accepted((sx, (sy, sz)), ow)
            if {a[:2] for a in full_l} != {a[:2] for a in full_r}:
                raise RuntimeError(f"C14 harness: reference merge not associative on {specs} ow={ow}")
            out.append(_finding("associativity", d, f"(x.y).z = {_show(o_l)} but x.(y.z) = {_show(o_r)}"))
    d = _differ(cid, specs, o_l, o_n)
    if d:
        out.append(_finding("merge()-is-fold-of-merge_with", d, f"(x.y).z = {_show(o_l)}; P.merge(x, y, z) = {_show(o_n)}"))
    if stats is not None:
        stats["merges"] += 5
        stats[o_l[0]] += 1
    return out


def check_single(F, cid, spec, mode, stats=None):
    """Laws about one instance: merge() of 0/1 arguments and complete -> partial -> complete."""
    P = M.partial_class(F, cid)
    (X,), snaps, out = _operands(F, cid, (spec,), (mode,))
    exp = [("ok", M.canon(M.plain(spec)), spec)]
    o1 = _outcome(lambda: P.merge(X))
    j = _judge(cid, (spec,), exp, o1)
    if j:
        out.append(_finding("merge()-is-fold-of-merge_with", j, f"P.merge(x) = {_show(o1)} for x = {exp[0][1]}"))
    o0 = _outcome(lambda: P.merge())
    j = _judge(cid, ({},), [("ok", M.canon({}), {})], o0)
    if j:
        out.append(_finding("merge()-is-fold-of-merge_with", j, f"P.merge() = {_show(o0)}, not the empty partial"))
    if M.is_complete(cid, spec):
        c = M.complete_object(F, cid, spec)
        csnap = M.snapshot(c)
        if mode == "complete":
            back = _outcome(lambda: P.to_partial(c).from_partial())
            how = "to_partial(c).from_partial()"
        else:
            back = _outcome(lambda: X.from_partial())
            how = f"from_partial() of the partial obtained by {mode}"
        j = _judge(cid, (spec,), [("ok", csnap[0], spec)], back)
        if j is None and back[0] == "ok":
            r = back[2]
            if not (r == c) or type(r) is not type(c):
                j = ("(whole)", f"{type(c).__name__} equal to c", f"{type(r).__name__}, == c is {r == c}")
        if j:
            out.append(_finding("complete-partial-complete", j, f"{how} = {_show(back)} for c = {csnap[0]}"))
        out += _mutations(cid, (c,), (csnap,), ("complete",))
    out += _mutations(cid, (X,), snaps, (mode,))
    if stats is not None:
        stats["merges"] += 2
    return out


# ---- harvest pipeline -------------------------------------------------------------------

HARVEST_VARIANTS = ("harvesters", "files", "file-harvester-file")


def _sources(F, cid, specs, variant, d):
    from pathlib import Path

    srcs = []
    for i, s in enumerate(specs):
        as_file = variant == "files" or (variant == "file-harvester-file" and i != 1)
        if as_file:
            p = os.path.join(d, f"meta{i}.yaml")
            with open(p, "w", encoding="utf-8") as f:
                f.write(M.YAML_HEADER + M.to_yaml(M.plain(s, sets_as_lists=True)))
            srcs.append(Path(p))
        else:
            srcs.append(M.make_harvester(F, cid, s))
    return srcs


def check_harvest(F, cid, specs, variant, stats=None):
    """harvest() over the sources in the given order agrees with the reference fold.

    harvest() merges without overwrite permission on the pinned tree while its docstring speaks of
    later harvesters overwriting; the property fixes neither, so the fold of either policy is accepted.
    """
    from metador_core.harvester import harvest

    S = M.py_class(F, cid)
    out = []
    d = env.fresh_dir("c14h")
    try:
        tree = {}
        for s in specs:
            tree = (tree, s)
        acc = ref_accepted(tree, False)
        acc += [a for a in ref_accepted(tree, True) if not any(_same(a, b) for b in acc)]
        got = _outcome(lambda: harvest(S, _sources(F, cid, specs, variant, d), return_partial=True))
        j = _judge(cid, specs, acc, got)
        if j:
            out.append(_finding("harvest-is-reference-fold", j, f"harvest(return_partial=True) = {_show(got)}; documented: {_show_acc(acc)}"))
        elif got[0] == "ok" and M.is_complete(cid, got_spec := next(a[2] for a in acc if _same(a, got))):
            full = _outcome(lambda: harvest(S, _sources(F, cid, specs, variant, d)))
            j = _judge(cid, specs, [("ok", got[1], got_spec)], full)
            if j is None and not isinstance(full[2], S):
                j = ("(whole)", S.__name__, type(full[2]).__name__)
            if j:
                out.append(_finding("harvest-is-reference-fold", j, f"harvest() = {_show(full)}; merged partial was {got[1]}"))
        if stats is not None:
            stats["merges"] += len(specs)
            stats[got[0]] += 1
    finally:
        env.rmtree(d)
    return out


# =====================================================================================
# cases (JSON) <-> checks
# =====================================================================================


def run_case(case):
    try:
        return _run_case(case)
    except Unbuildable as u:
        return [u.args[0]]


def _run_case(case):
    F, cid, specs, modes, ow = case["factory"], case["cls"], case["specs"], case["modes"], bool(case.get("ow"))
    k = case["kind"]
    if k == "pair":
        return check_pair(F, cid, specs[0], specs[1], modes[0], modes[1], ow)
    if k == "triple":
        return check_triple(F, cid, specs[0], specs[1], specs[2], modes[0], modes[1], modes[2], ow)
    if k == "single":
        return check_single(F, cid, specs[0], modes[0])
    if k == "harvest":
        return check_harvest(F, cid, specs, modes[0])
    raise KeyError(k)


def _legal(F, v):
    """Schemas do not accept empty strings (min_anystr_length=1)."""
    if isinstance(v, str):
        return F == "plain" or v != ""
    if isinstance(v, dict):
        return all(_legal(F, x) for x in v.values())
    if isinstance(v, list):
        return all(_legal(F, x) for x in v)
    return True


def case_applicable(case):
    F, cid = case["factory"], case["cls"]
    if not _legal(F, case["specs"]):
        return False
    if case["kind"] == "harvest":
        return F in M.SCHEMA_LIKE and all(M.applicable("harvester", F, cid, s) for s in case["specs"])
    return all(M.applicable(m, F, cid, s) for s, m in zip(case["specs"], case["modes"]))


def _mk_case(kind, F, cid, specs, modes, ow):
    return {"kind": kind, "factory": F, "cls": cid, "specs": list(specs), "modes": list(modes), "ow": bool(ow)}


def nested_classes(specs):
    """Classes met at each nested-model position (top level) of a case, in operand order."""
    out = []
    fields = sorted({f for s in specs for f, v in s.items() if isinstance(v, dict) and "M" in v})
    for f in fields:
        cs = [s[f]["M"] if isinstance(s.get(f), dict) and "M" in s[f] else "-" for s in specs]
        if sum(c != "-" for c in cs) >= 2:
            out.append(f + ":" + "|".join(cs))
    return ",".join(out)


def _pkey(f, specs):
    return (f["law"], f["field_kind"], f["expected"], f["observed"], nested_classes(specs))


class _Acc:
    """Per-item accumulator: counters + first witness per preliminary class."""

    def __init__(self):
        self.stats = {"cases": 0, "merges": 0, "ok": 0, "err": 0}
        self.found = {}
        self.t0 = time.process_time()

    def run(self, case_args, fn, *a):
        """Evaluate one case through check function `fn` and record its findings."""
        try:
            finds = fn(*a, self.stats)
        except Unbuildable as u:
            finds = [u.args[0]]
        self.add(case_args, finds)

    def add(self, case_args, finds):
        self.stats["cases"] += 1
        for f in finds:
            k = _pkey(f, case_args[3])
            if k not in self.found:
                self.found[k] = (_mk_case(*case_args), f)

    def result(self, **extra):
        r = dict(self.stats)
        r["cpu_s"] = time.process_time() - self.t0
        r["found"] = [[list(k), c, f] for k, (c, f) in self.found.items()]
        r.update(extra)
        return r


# ---- bulk workers (one picklable item each; results are pure functions of the item) ------


def work_single(item):
    F, cid, cap, xi = item
    sp = space(F, cid, cap)
    acc = _Acc()
    for m in M.modes_for(F):
        if M.applicable(m, F, cid, sp[xi]):
            acc.run(("single", F, cid, (sp[xi],), (m,), False), check_single, F, cid, sp[xi], m)
    return acc.result()


def work_pairs(item):
    """All y, all applicable mode pairs, both overwrite settings, for one x."""
    F, cid, cap, xi = item
    sp = space(F, cid, cap)
    acc = _Acc()
    sx = sp[xi]
    modes = M.modes_for(F)
    mxs = [m for m in modes if M.applicable(m, F, cid, sx)]
    for sy in sp:
        mys = [m for m in modes if M.applicable(m, F, cid, sy)]
        for mx in mxs:
            for my in mys:
                for ow in (False, True):
                    acc.run(("pair", F, cid, (sx, sy), (mx, my), ow), check_pair, F, cid, sx, sy, mx, my, ow)
    return acc.result()


def _nontrivial(sx, sy, sz):
    return (1 if sx else 0) + (1 if sy else 0) + (1 if sz else 0) >= 2


def work_triples(item):
    """All (y, z), both overwrite settings, for one x; `mode` = one mode for all three operands,
    or None = every combination of applicable modes (used on the small space).

    `full_index`: position of every spec of this space in the class's reference space, to count
    distinct non-trivial triples across passes.
    """
    F, cid, cap, mode, xi, ref_cap = item
    sp = space(F, cid, cap)
    ref = {json.dumps(s, sort_keys=True): i for i, s in enumerate(space(F, cid, ref_cap))}
    n_ref = len(ref)
    idx = [ref[json.dumps(s, sort_keys=True)] for s in sp]
    acc = _Acc()
    sx = sp[xi]
    allm = M.modes_for(F)
    bitmap = 0

    def modes_of(s):
        return [m for m in ([mode] if mode else allm) if M.applicable(m, F, cid, s)]

    mxs = modes_of(sx)
    for yi, sy in enumerate(sp):
        mys = modes_of(sy)
        for zi, sz in enumerate(sp):
            mzs = modes_of(sz)
            did = False
            for mx, my, mz in itertools.product(mxs, mys, mzs):
                for ow in (False, True):
                    acc.run(("triple", F, cid, (sx, sy, sz), (mx, my, mz), ow), check_triple, F, cid, sx, sy, sz, mx, my, mz, ow)
                    did = True
            if did and _nontrivial(sx, sy, sz):
                bitmap |= 1 << (idx[yi] * n_ref + idx[zi])
    return acc.result(bitmap=bitmap, x_ref=idx[xi])


def work_harvest(item):
    F, cid, cap, xi = item
    sp = [s for s in space(F, cid, cap) if M.applicable("harvester", F, cid, s)]
    acc = _Acc()
    if xi >= len(sp):
        return acc.result()
    sx = sp[xi]
    for sy in sp:
        for sz in sp:
            for v in HARVEST_VARIANTS:
                acc.run(("harvest", F, cid, (sx, sy, sz), (v,), False), check_harvest, F, cid, (sx, sy, sz), v)
    return acc.result()


# =====================================================================================
# minimisation of a witness and its final signature
# =====================================================================================


def _reductions(spec):
    """Strictly simpler variants of a spec (one step)."""
    for f in list(spec):
        s2 = dict(spec)
        del s2[f]
        yield s2
    for f, v in spec.items():
        for v2 in _value_reductions(v):
            s2 = dict(spec)
            s2[f] = v2
            yield s2


def _value_reductions(v):
    if not isinstance(v, dict):
        # scalars: towards the falsy representative of their type
        if isinstance(v, bool):
            if v:
                yield False
        elif isinstance(v, int):
            if v != 0:
                yield 0
        elif isinstance(v, float):
            if v != 0.0:
                yield 0.0
        elif isinstance(v, str):
            if len(v) > 1:
                yield v[:1]
            if v:
                yield ""
        return
    if "L" in v and v["L"]:
        yield {"L": v["L"][:-1]}
    if "S" in v and v["S"]:
        yield {"S": v["S"][:-1]}
    if "LM" in v and v["LM"]:
        yield {"LM": v["LM"][:-1]}
        for i, m in enumerate(v["LM"]):
            for m2 in _value_reductions(m):
                yield {"LM": v["LM"][:i] + [m2] + v["LM"][i + 1 :]}
    if "M" in v:
        for s2 in _reductions(v["f"]):
            yield {"M": v["M"], "f": s2}
        par = M.PARENT.get(v["M"])
        if par and all(any(f == g for g, *_ in M.DESCR[par]) for f in v["f"]):
            yield {"M": par, "f": dict(v["f"])}


def _still(case, law, err):
    """The finding of the same kind if the (candidate) case still shows it, else None.

    Candidates invented by the minimiser may be illegal for a class (e.g. a nested value without its
    mandatory field): a candidate that cannot even be built is simply rejected.
    """
    if not case_applicable(case):
        return None
    try:
        finds = run_case(case)
    except Exception:  # noqa: BLE001
        return None
    for f in finds:
        if f["law"] == law and f["observed"].startswith("error") == err:
            return f
    return None


def minimize(case, finding):
    """Greedy delta-debugging on the operand specs, then on the construction modes."""
    law, err = finding["law"], finding["observed"].startswith("error")
    cur, curf = case, finding
    progress = True
    while progress:
        progress = False
        for i, s in enumerate(cur["specs"]):
            for s2 in _reductions(s):
                cand = dict(cur, specs=cur["specs"][:i] + [s2] + cur["specs"][i + 1 :])
                f = _still(cand, law, err)
                if f:
                    cur, curf, progress = cand, f, True
                    break
            if progress:
                break
    # canonical witness: replace each operand by the earliest instance of the class (enumeration
    # order: fewest fields, falsy values first) that still shows the failure
    full = space(cur["factory"], cur["cls"], 10**9)
    keys = [json.dumps(s, sort_keys=True) for s in full]
    for i in range(len(cur["specs"])):
        k = json.dumps(cur["specs"][i], sort_keys=True)
        upto = keys.index(k) if k in keys else len(full)
        for s2 in full[:upto]:
            if len(s2) > len(cur["specs"][i]):
                break
            cand = dict(cur, specs=cur["specs"][:i] + [s2] + cur["specs"][i + 1 :])
            f = _still(cand, law, err)
            if f:
                cur, curf = cand, f
                break
    if cur["kind"] != "harvest":
        order = M.modes_for(cur["factory"])
        for i, m in enumerate(cur["modes"]):
            for m2 in order[: order.index(m)]:
                cand = dict(cur, modes=cur["modes"][:i] + [m2] + cur["modes"][i + 1 :])
                f = _still(cand, law, err)
                if f:
                    cur, curf = cand, f
                    break
    return cur, curf


def characterize(case, finding):
    """Which construction modes / factories show the same failure on the minimal specs."""
    law, err = finding["law"], finding["observed"].startswith("error")
    info = {}
    if case["kind"] == "harvest":
        fails = [v for v in HARVEST_VARIANTS if _still(dict(case, modes=[v]), law, err)]
        info["modes"] = "all" if len(fails) == len(HARVEST_VARIANTS) else "+".join(fails)
        info["factory"] = case["factory"]
        return info
    n = len(case["modes"])
    appl, fails = [], []
    for m in M.modes_for(case["factory"]):
        c = dict(case, modes=[m] * n)
        if case_applicable(c):
            appl.append(m)
            if _still(c, law, err):
                fails.append(m)
    if fails and len(fails) == len(appl):
        info["modes"] = "all"
    elif fails:
        info["modes"] = "+".join(fails)
    else:
        info["modes"] = "x".join(case["modes"])  # only the mixed combination of the witness
    info["factory"] = case["factory"]
    if case["factory"] != "installed":
        other = "schema" if case["factory"] == "plain" else "plain"
        oc = dict(case, factory=other)
        both = False
        try:
            both = bool(case_applicable(oc) and _still(oc, law, err))
        except Exception:  # noqa: BLE001
            both = False
        if both:
            info["factory"] = "both"
    return info


def work_minimize(item):
    key, case, finding = item
    c2, f2 = minimize(case, finding)
    info = characterize(c2, f2)
    return c2, f2, info
