"""Shared helpers for the IH5 record-lifecycle properties (C02-C05, C10, C11)."""
from __future__ import annotations

import hashlib
import os
from pathlib import Path

from mc import env, treeexp
from mc.impl import h5ops, ih5


def sha(path) -> str:
    h = hashlib.sha256()
    with open(path, "rb") as f:
        h.update(f.read())
    return h.hexdigest()


def dir_hashes(d) -> dict:
    """name -> sha256 for every regular file directly in d."""
    out = {}
    for n in sorted(os.listdir(d)):
        p = os.path.join(d, n)
        if os.path.isfile(p):
            out[n] = sha(p)
    return out


def dump(rec):
    return h5ops.dump_visit(rec)


def apply_hist(rec, hist, start_n=0):
    """Apply a tree history (ops of mc.impl.h5ops + ['B']) to an open writable record.

    Failing ops are tolerated (they are part of some deduplicated histories). Returns count.
    """
    n = start_n
    for op in hist:
        n += 1
        treeexp._apply(rec, list(op), n, True)
    return n


def build(kind, hist, name="rec", d=None):
    d = d or env.fresh_dir("r")
    rec = ih5.record_class(kind)(os.path.join(d, name), "w")
    apply_hist(rec, hist)
    return rec, d


def model_dump(hist, upto=None):
    """Dump of the reference tree after the successful ops of hist[:upto]."""
    m = ih5.new_model()
    try:
        n = 0
        good = []
        for op in hist[: len(hist) if upto is None else upto]:
            n += 1
            if op[0] == "B":
                continue
            r = treeexp._apply(m, list(op), n, False)
            if r == "ok":
                good.append((list(op), n))
            else:
                m.close()
                m = ih5.new_model()
                for o, k in good:
                    treeexp._apply(m, o, k, False)
        return h5ops.dump_visit(m)
    finally:
        m.close()


# ------------------------------------------------------------------ fast state generation (no oracle)


def expand_fast(task):
    """Worker: raw keys of all successors of a history (no checking; C01 owns the view oracle)."""
    cfg_name, hist = task
    cfg = treeexp.CFGS[cfg_name]
    out = []
    rec = d = None
    base = None
    try:
        for op in treeexp.enabled(cfg, hist):
            if rec is None:
                rec, d = build(cfg["kind"], hist)
                if base is None:
                    base = ih5.raw_key(rec)
            r = treeexp._apply(rec, op, len(hist) + 1, True)
            key = ih5.raw_key(rec) if r != "timeout" else None
            if r == "ok" or (key is not None and key != base):
                out.append((op, key))
                ih5.discard(rec, d)
                rec = None
            elif r == "timeout":
                ih5.discard(rec, d)
                rec = None
    finally:
        if rec is not None:
            ih5.discard(rec, d)
    return out


def init_key_fast(cfg_name):
    cfg = treeexp.CFGS[cfg_name]
    rec, d = build(cfg["kind"], [])
    try:
        return ih5.raw_key(rec)
    finally:
        ih5.discard(rec, d)


def gen_states(pool, cfg_name, depth):
    """All deduplicated histories up to `depth` (including []). Deterministic order."""
    seen = {pool.map("init_key_fast", [cfg_name])[0]}
    frontier = [[]]
    allh = [[]]
    transitions = 0
    for _ in range(depth):
        res = pool.map("expand_fast", [(cfg_name, h) for h in frontier], chunk=4, item_deadline=120.0)
        nxt = []
        for hist, rl in zip(frontier, res):
            if rl == "__HANG__":
                continue
            for op, key in rl:
                transitions += 1
                if key is not None and key not in seen:
                    seen.add(key)
                    nxt.append(hist + [op])
        frontier = nxt
        allh += nxt
    return allh, transitions


worker_init = treeexp.worker_init
