"""Installed schema plugins: minimal valid instances, per-field boundary corpora derived from the declared field
types, and the enumeration of all <=2-field deviations from the minimal instance (shared by C12 and C13)."""
from __future__ import annotations

import mc.env as env  # noqa: F401

import datetime
import enum
import importlib
import typing
from typing import Any, Dict, List

from pydantic import AnyHttpUrl, BaseModel, ConstrainedList, NonNegativeInt, PositiveFloat
from pydantic.fields import ModelField

from metador_core.schema import MetadataSchema
from metador_core.schema import types as mt
from metador_core.schema.ld import LDIdRef

from mc import schema_grammar as G

EXTRA_KEY = "zz_extra"


def load_schemas():
    """name -> (version tuple, class as handed out WITH explicit version)."""
    from metador_core.plugins import schemas

    out = {}
    for ref in schemas.keys():
        out[ref.name] = (tuple(ref.version), schemas.get(ref.name, ref.version))
    return out


def ancestors_of(name, version):
    """Ancestor schemas a stored object must be readable as: registered parent path + python class chain."""
    from metador_core.plugins import schemas

    S = schemas.get(name, version)
    out, seen = [], set()
    for r in schemas.parent_path(name, version):
        A = schemas.get(r.name, r.version)
        if A is not S and id(A) not in seen:
            seen.add(id(A))
            out.append((f"plugin:{r.name}", A))
    for A in S.__mro__[1:]:
        if isinstance(A, type) and issubclass(A, MetadataSchema) and id(A) not in seen:
            seen.add(id(A))
            out.append((f"class:{A.__module__.rsplit('.', 1)[-1]}.{A.__name__}", A))
    return out


def minimal_instances(n: G.Names) -> Dict[str, dict]:
    a = n.a
    fm = {"contentSize": 0, "sha256": "ab", "encodingFormat": "text/plain", "filename": a}
    instr = {"instrumentName": a, "instrumentModel": a}
    spec = {"diameter": 1.5, "gaugeLength": 1.5}
    return {
        "core.bib": {"name": a, "abstract": a, "dateCreated": "2020-01-01", "author": [{"name": a}]},
        "core.dashboard": {},
        "core.dir": {},
        "core.org": {},
        "core.person": {"name": a},
        "core.file": dict(fm),
        "core.imagefile": dict(fm, width=1, height=2),
        "core.packerinfo": {"packer": {"name": "core.generic", "version": [0, 1, 0]}, "pkg": {"name": a, "version": [0, 1, 0]}},
        "core.table": {"name": a, "columns": []},
        "example.matsci.info": {"abstract": a, "dateCreated": "2020-01-01", "author": [{"@id": a}], "material": [{"materialName": a}]},
        "example.matsci.instrument": dict(instr),
        "example.matsci.material": {"materialName": a},
        "example.matsci.method": {"instrument": dict(instr), "specimen": dict(spec)},
        "example.matsci.specimen": dict(spec),
    }  # fmt: skip


# minimal raw forms for nested model classes that need more than their required fields
_MODEL_MIN_BY_NAME = {
    "Person": lambda n: {"name": n.a},
}


class Installed:
    """Corpus derivation for the field types of installed schemas (one per process)."""

    def __init__(self, e: G.Env):
        self.e = e
        self._model_min_cache: Dict[type, Any] = {}

    # ---- models
    def model_min(self, cls, depth=0):
        if cls in self._model_min_cache:
            return self._model_min_cache[cls]
        n = self.e.n
        d: Dict[str, Any] = {}
        f = _MODEL_MIN_BY_NAME.get(cls.__name__)
        if f is not None:
            d.update(f(n))
        for fname, fld in cls.__fields__.items():
            if fld.required and fld.alias not in d and fname not in getattr(cls, "__constants__", {}):
                c = self.type_corpus(fld.outer_type_, depth + 1)
                d[fld.alias] = c[0] if c else None
        self._model_min_cache[cls] = d
        return d

    def model_corpus(self, cls, depth):
        n = self.e.n
        if cls is LDIdRef:
            return G.atom_corpus("LDIdRef", self.e)
        m = self.model_min(cls, depth)
        out = [dict(m)]
        # a richer variant: first two optional plain-string fields set
        rich = dict(m)
        k = 0
        for fname, fld in cls.__fields__.items():
            if fld.alias in rich or fname in getattr(cls, "__constants__", {}):
                continue
            if isinstance(fld.outer_type_, type) and issubclass(fld.outer_type_, mt.NonEmptyStr) and fld.outer_type_ is mt.NonEmptyStr:
                if fname == "id_":
                    continue
                rich[fld.alias] = n.b if k else f" {n.a} "
                k += 1
                if k == 2:
                    break
        if rich != m:
            out.append(rich)
        out.append({"$py": "imodel", "cls": f"{cls.__module__}:{cls.__qualname__}", "kw": dict(m)})
        out += [{}, 1]
        return out

    # ---- types
    def type_corpus(self, tp, depth=0) -> list:
        e = self.e
        n = e.n
        origin = typing.get_origin(tp)
        args = typing.get_args(tp)
        if tp is Any:
            return [1, n.a, [1, n.a], {n.a: None}]
        if tp is type(None):
            return [None]
        if origin is typing.Union:
            return G._dedupe([v for a in args for v in self.type_corpus(a, depth)])
        if origin is typing.Annotated:
            return self.type_corpus(args[0], depth)
        if origin is typing.Literal:
            return list(args) + [n.c, 1]
        if origin in (list, set, frozenset) or (isinstance(tp, type) and issubclass(tp, ConstrainedList)):
            if isinstance(tp, type) and issubclass(tp, ConstrainedList):
                item = tp.item_type
                is_set = False
            else:
                item = args[0] if args else Any
                is_set = origin is not list
            inner = self.type_corpus(item, depth + 1)
            v0 = inner[0]
            v1 = inner[1] if len(inner) > 1 else inner[0]
            out = [[]] + [[v] for v in inner] + [[v0, v1], [v0, v0]]
            if is_set and G._hashable_spec(v0) and G._hashable_spec(v1):
                out.append({"$py": "set", "items": [v0, v1]})
            out.append(v0 if not isinstance(v0, list) else 1)
            return G._dedupe(out)
        if origin is tuple:
            if len(args) == 3 and all(a is NonNegativeInt for a in args):
                return G.atom_corpus("SemVerTuple", e)
            inner = [self.type_corpus(a, depth + 1)[0] for a in args if a is not Ellipsis]
            return [inner, [], 1]
        if origin is dict:
            vt = args[1] if len(args) == 2 else Any
            if vt is Any:
                return [{}, {n.a: "sha256:ab"}, {n.a: {n.b: None}}, {n.a: 1, n.b: [1]}, [], 1]
            vc = self.type_corpus(vt, depth + 1)
            return [{}] + [{"schema": v} for v in vc[:6]] + [1]
        if isinstance(tp, typing.ForwardRef) or isinstance(tp, str):
            return [1]
        if isinstance(tp, type):
            if issubclass(tp, BaseModel):
                if depth > 4:
                    return [self.model_min(tp, depth)]
                return self.model_corpus(tp, depth)
            if issubclass(tp, enum.Enum):
                return [m.value for m in tp] + [n.c]
            for cls, atom in (
                (mt.QualHashsumStr, "QualHashsumStr"), (mt.MimeTypeStr, "MimeTypeStr"), (mt.NonEmptyStr, "NonEmptyStr"),
                (mt.Duration, "Duration"), (mt.PintUnit, "PintUnit"), (mt.PintQuantity, "PintQuantity"),
                (AnyHttpUrl, "Url"), (mt.Bool, "Bool"), (mt.Int, "Int"), (mt.Float, "Float"), (mt.Str, "Str"),
                (NonNegativeInt, "NonNegInt"), (PositiveFloat, "PosFloat"),
            ):  # fmt: skip
                if issubclass(tp, cls):
                    return G.atom_corpus(atom, e)
            if issubclass(tp, datetime.datetime):
                return ["2020-01-01T12:30:00", "2020-01-01T12:30:00Z", "2020-01-01T12:30:00+02:00", "2020-01-01T12:30:00.123456",
                        "1999-12-31T23:59:59", {"$py": "datetime", "iso": "2020-01-01T12:30:00"}, "2020-01-01 12:30", n.a]  # fmt: skip
            if issubclass(tp, datetime.date):
                return G.atom_corpus("Date", e)
            if issubclass(tp, datetime.time):
                return ["12:30:00", "12:30", "12:30:00.5", "23:59:59.999999", "00:00:00", {"$py": "time", "iso": "12:30:00"}, 0, n.a]
            if issubclass(tp, bool):
                return G.atom_corpus("PBool", e)
            if issubclass(tp, int):  # e.g. phantom intervals over int
                return [1, 10, 5, 0, 11, -1, 2**53, "1", 1.5, True]
            if issubclass(tp, float):
                return G.atom_corpus("PFloat", e)
            if issubclass(tp, str):
                return G.atom_corpus("PStr", e)
        return [1, n.a]

    def field_specs(self, S):
        """[(input key, [value specs])] for every non-constant field of S, plus one extra (undeclared) key."""
        out = []
        for fname, fld in S.__fields__.items():
            if fname in S.__constants__:
                continue
            assert isinstance(fld, ModelField)
            c = G._dedupe(self.type_corpus(fld.outer_type_) + [None, G.OMIT])
            out.append((fld.alias, c))
        out.append((EXTRA_KEY, [1, self.e.n.a, [1, self.e.n.a], {self.e.n.a: 1}, {self.e.n.a: None}, None]))
        return out


def materialize(spec, e: G.Env):
    """Like G.materialize, plus instances of installed model classes ({"$py":"imodel"})."""
    if isinstance(spec, dict):
        tag = spec.get("$py")
        if tag == "imodel":
            mod, qn = spec["cls"].split(":")
            cls = importlib.import_module(mod)
            for part in qn.split("."):
                cls = getattr(cls, part)
            return cls(**{k: materialize(v, e) for k, v in spec["kw"].items()})
        if tag is None:
            return {k: materialize(v, e) for k, v in spec.items()}
        if tag in ("set", "tuple"):
            vals = [materialize(v, e) for v in spec["items"]]
            return set(vals) if tag == "set" else tuple(vals)
        return G.materialize(spec, e)
    if isinstance(spec, list):
        return [materialize(v, e) for v in spec]
    return spec


def build_input(minimal: dict, deviation: List[list], e: G.Env) -> dict:
    """Fresh kwargs: the minimal instance with the deviating keys replaced / removed."""
    spec = dict(minimal)
    for key, v in deviation:
        if G.is_omit(v):
            spec.pop(key, None)
        else:
            spec[key] = v
    return {k: materialize(v, e) for k, v in spec.items()}
