"""Deterministic process pool for level-synchronous exploration.

Workers are long-lived (`spawn`, so nothing is inherited from the master), import the
driver module by name and call functions of it on chunks of items.  Results always come
back in item order, so whatever the master derives from them is independent of timing.

A worker that does not answer within the chunk deadline is killed and replaced; the items
of its chunk are then re-run one at a time, and the one that hangs again yields `HANG`.
"""
from __future__ import annotations

import importlib
import multiprocessing as mp
import os
import sys
import time
import traceback
from multiprocessing.connection import wait as mpwait

HANG = "__HANG__"


class HarnessError(RuntimeError):
    pass


def _worker_main(conn, module_name, init_kwargs, wid):
    try:
        import mc.env as env  # noqa: F401  (shim first)

        env.install_watchdog()
        mod = importlib.import_module(module_name)
        if hasattr(mod, "worker_init"):
            mod.worker_init(**(init_kwargs or {}))
        conn.send(("ready", wid))
    except BaseException:
        conn.send(("fatal", traceback.format_exc()))
        return
    while True:
        try:
            msg = conn.recv()
        except EOFError:
            return
        if msg is None:
            return
        tid, fname, items = msg
        try:
            fn = getattr(mod, fname)
            out = [fn(it) for it in items]
            conn.send(("ok", tid, out))
        except BaseException:
            conn.send(("err", tid, traceback.format_exc()))


class Pool:
    def __init__(self, module_name: str, init_kwargs=None, n: int | None = None):
        self.module_name = module_name
        self.init_kwargs = init_kwargs or {}
        self.n = n or int(os.environ.get("VERIF_WORKERS", "0")) or min(16, os.cpu_count() or 1)
        self.ctx = mp.get_context("spawn")
        self.workers = [None] * self.n
        self.hangs = 0
        for i in range(self.n):
            self._spawn(i)
        for i in range(self.n):
            self._await_ready(i)

    def _spawn(self, i):
        parent, child = self.ctx.Pipe()
        p = self.ctx.Process(target=_worker_main, args=(child, self.module_name, self.init_kwargs, i), daemon=True)
        p.start()
        child.close()
        self.workers[i] = [p, parent, None, 0.0, False]  # proc, conn, current task, start, ready

    def _await_ready(self, i):
        p, conn, _, _, ready = self.workers[i]
        if ready:
            return
        if not conn.poll(300):
            raise HarnessError("worker did not start")
        msg = conn.recv()
        if msg[0] != "ready":
            raise HarnessError("worker failed to start:\n" + str(msg[1]))
        self.workers[i][4] = True

    def _restart(self, i):
        p, conn = self.workers[i][0], self.workers[i][1]
        try:
            p.kill()
            p.join(5)
        except Exception:
            pass
        try:
            conn.close()
        except Exception:
            pass
        self._spawn(i)
        self._await_ready(i)

    def map(self, fname: str, items: list, chunk: int = 8, item_deadline: float = 30.0) -> list:
        """Apply module.<fname> to every item; results in item order."""
        n = len(items)
        results = [None] * n
        done = [False] * n
        # task = (start index, count, solo?)
        pending = [(s, min(chunk, n - s), False) for s in range(0, n, chunk)]
        pending.reverse()
        inflight = 0
        tid = 0
        while pending or inflight:
            for w in self.workers:
                if w[2] is None and pending:
                    s, c, solo = pending.pop()
                    tid += 1
                    w[2] = (tid, s, c, solo)
                    w[3] = time.time()
                    w[1].send((tid, fname, items[s : s + c]))
                    inflight += 1
            conns = [w[1] for w in self.workers if w[2] is not None]
            ready = mpwait(conns, timeout=1.0)
            now = time.time()
            for i, w in enumerate(self.workers):
                if w[2] is None:
                    continue
                t, s, c, solo = w[2]
                if w[1] in ready:
                    try:
                        msg = w[1].recv()
                    except EOFError:
                        msg = ("err", t, "worker died (EOF)")
                    if msg[0] == "ok":
                        for k, r in enumerate(msg[2]):
                            results[s + k] = r
                            done[s + k] = True
                        w[2] = None
                        inflight -= 1
                    else:
                        if "worker died" in str(msg[2]) and not solo:
                            # treat like a hang: re-run the items one by one
                            self._restart(i)
                            for k in reversed(range(c)):
                                pending.append((s + k, 1, True))
                            inflight -= 1
                            continue
                        if "worker died" in str(msg[2]) and solo:
                            self._restart(i)
                            results[s] = HANG
                            done[s] = True
                            self.hangs += 1
                            inflight -= 1
                            continue
                        raise HarnessError(f"worker error in {fname}:\n{msg[2]}")
                elif now - w[3] > item_deadline * (1 if solo else c) + 5:
                    self._restart(i)
                    inflight -= 1
                    if solo:
                        results[s] = HANG
                        done[s] = True
                        self.hangs += 1
                    else:
                        for k in reversed(range(c)):
                            pending.append((s + k, 1, True))
        assert all(done)
        return results

    def close(self):
        for w in self.workers:
            try:
                w[1].send(None)
            except Exception:
                pass
        for w in self.workers:
            try:
                w[0].join(2)
                if w[0].is_alive():
                    w[0].kill()
            except Exception:
                pass

    def __enter__(self):
        return self

    def __exit__(self, *a):
        self.close()
        return False


class SerialPool:
    """Same interface, in-process (used for replay and for VERIF_WORKERS=1 debugging)."""

    def __init__(self, module_name: str, init_kwargs=None, n=None):
        import mc.env as env

        env.install_watchdog()
        self.mod = importlib.import_module(module_name)
        if hasattr(self.mod, "worker_init"):
            self.mod.worker_init(**(init_kwargs or {}))
        self.hangs = 0
        self.n = 1

    def map(self, fname, items, chunk=8, item_deadline=30.0):
        fn = getattr(self.mod, fname)
        return [fn(it) for it in items]

    def close(self):
        pass

    def __enter__(self):
        return self

    def __exit__(self, *a):
        return False


def make_pool(module_name, init_kwargs=None, n=None):
    if (n or int(os.environ.get("VERIF_WORKERS", "0") or 0)) == 1:
        return SerialPool(module_name, init_kwargs)
    return Pool(module_name, init_kwargs, n)
