"""Regenerate MANIFEST.json from the table below (keeps it valid at all times)."""
import json, os, sys
HERE = os.path.dirname(os.path.dirname(os.path.abspath(__file__)))

CHECKS = {
    "C14": ("exploration", "3 C14",
            "Model classes from a grammar (optional primitives incl. falsy values, lists, sets, nested, recursive, an inheritance chain and an unrelated sibling at one nested position; both partial factories; views of installed schemas) are instantiated with the full cross product of per-field corpora (deterministically shrunk to a cap, never sampled) in every construction mode the library offers (keyword, parse_obj, JSON, YAML, to_partial, cast, raw complete object, harvester). All ordered pairs and triples x overwrite on/off are merged and compared with a plain-dict reference merge; identity, associativity (where claimed), non-mutation of operands (content and identity of nested objects), no dropped value, complete->partial->complete round trip, and harvest() over all orders of three sources.",
            "Finite corpora (cap 14 instances per class quick, 36 thorough); associativity judged only where nested classes form an inheritance chain, as the property restricts; equal scalar provided twice may raise or be kept.",
            "exhaustive enumeration of instance triples against a reference model (bounded grammar)"),
    "C12": ("exploration", "3 C12",
            "A finite grammar of field types (26 atoms incl. strict/plain primitives, phantom and constrained types, Duration, PintUnit, PintQuantity, SemVerTuple, Literal, Enum, date, AnyHttpUrl, nested schemas with and without JSON-LD constants, LDIdRef; Optional/List/Set/Union to depth 2, a core to depth 3) generates one schema class per type x constant variant; every class is instantiated with the complete boundary corpus of its type, and all installed schemas with every <=2-field deviation from a minimal instance. Oracle: parse_raw(bytes/json/yaml) and parse_obj(json_dict) give an equal instance, second round trip identical, constants always dumped with their value and ignored on input.",
            "Exhaustive for the stated grammar and corpora; inputs the constructor rejects are not judged (property speaks about valid instances); NaN compared for parsability only.",
            "exhaustive enumeration of generated schema classes x value corpora (bounded grammar)"),
    "C13": ("exploration", "3 C13",
            "Part A: every instance of the C12 enumeration (generated 3-level chains and installed schemas) must be parsable by every ancestor class and registered parent plugin. Part B: for every ordered pair of field types of the grammar (190 types quick, 700 thorough; plus multi-field and via-intermediate variants, Extra policies and new fields below forbidding parents) a parent/child class pair is generated and the library's own plugin-time check is run; whenever it accepts the override, every corpus value the child accepts must be accepted by the parent.",
            "Exhaustive for the stated grammar and corpora; date/time types excluded as the property says.",
            "exhaustive enumeration of generated class pairs (programs) x value corpora"),
    "C17": ("exploration", "3 C17",
            "Every payload of a boundary corpus (all 256 single bytes incl. the IH5 deletion marker, 2-byte strings over boundary bytes, lengths around 64/128/1024/4096/65536 in three fillings, NUL- and marker-variants) is embedded with pack_file from a real file through each driver (h5py, IH5, IH5MF), followed by every follow-up sequence (bounded length) of patch boundary, copy, move, merge, reopen; after every step every embedded node must read back the exact bytes and carry core.file metadata with exact size and SHA-256; the marker value must be refused on IH5 without leaving anything behind.",
            "Finite payload corpus; MIME detection not judged; follow-up length bounded (1 for all payloads, 2 for 12 representatives in quick; +1 in thorough).",
            "exhaustive input x history enumeration on the real embedding path"),
    "C15": ("model_checking", "3 C15",
            "Explicit-state search where a state is a wrapper (path, kind, ACL flags, local-parent chain) and transitions are all navigation primitives of the group/dataset protocol (children, lookups by key / absolute / deep path, values, items, visititems, require_* of existing nodes, parent, file, query results, restrict with more flags, restrict(flag=False)); BFS to fixpoint from every node of a 3-level container x all 8 flag sets x drivers x both ways of restricting the root. In every reached state: flags never shrink, read_only => every protocol mutator on data/attributes/metadata raises with the raw dump unchanged, skel_only => content reads refuse while keys/in work, local_only => nothing above the local root, no raw object is ever handed out.",
            "Protocol = util/types.py Protocol classes + meta/metador/restrict/acl + the dataset mutators the code lists; private attributes are not navigation; one fixture container per driver.",
            "explicit-state BFS to fixpoint over wrapper states of the real implementation"),
    "C18": ("exploration", "3 C18",
            "All ordered pairs of snapshot trees of a small grammar (names {a,b}, depth<=2 with files/symlinks/empty dirs, plus a depth-3 family; thorough: more) are compared with DirDiff; an independent flatten-and-compare reference decides is_empty, the exact set of changed paths with status/prev/curr, get()/status() agreement, and the reported order is validated by simulating it on a dict filesystem (and on a real tmpfs directory for a deterministic slice).",
            "Exhaustive for the stated grammar; no random larger trees (different family).",
            "exhaustive input-pair enumeration against a reference model + order simulation"),
    "C19": ("exploration", "3 C19",
            "All trees of a grammar with file sizes around the hash block boundary and every symlink kind (inside plain/../absolute/dangling, outside file/dir/..) are built on tmpfs in two creation orders with different mtimes and hashed; results are grouped: equal hashsums <=> equal canonical content; every single edit of every tree must change the result; file entries must equal alg:hashlib digest (sha256, sha512); outside links must raise.",
            "Exhaustive for the stated grammar; link chains excluded (property silent); tmpfs.",
            "exhaustive input enumeration with group-by-result oracle"),
    "C09": ("model_checking", "3 C09",
            "Product system of three real MetadorContainers (h5py.File, IH5Record, IH5MFRecord) driven in lock-step by the same history (data, attributes, metadata attach/detach, copy with/without metadata, move, require_group); IH5-only patch boundaries and reopen points are deviations placed at every position up to a bound; every transition compares success/failure and the full user view (tree through all listing primitives, attributes, metadata JSON per node, query sets, used schemas). State key = triple of raw dumps.",
            "Purely differential - no reference model decides; documented IH5 subset (printable-ASCII keys, no links); bounded depth/alphabet.",
            "explicit-state BFS of the product of three real implementations (differential oracle)"),
    "C20": ("model_checking", "3 C20",
            "Container BFS over the harness schema family and every installed schema (minimal instances, plus core.file with a duration and core.table with units); in every state every stored object found by an independent raw scan must validate (jsonschema draft-07) against the JSON Schema embedded in the container, the embedded parent chain and provider record must equal what the plugin system reports, the embedded schema must equal schema_json(), exactly the used schemas are described, and a freshly constructed container (and a reopened one) gives the same description.",
            "jsonschema Draft7Validator judges validity; instances from a fixed corpus; bounded depth/alphabet.",
            "explicit-state BFS of the real implementation with per-state instance enumeration"),
    "C07": ("model_checking", "3 C07",
            "BFS over container histories (schema chain aa<bb<cc, sibling dd, auxiliary xx, unknown zz, core.file) on h5py.File and IH5Record; in every state for every node x (schema, version) grid: in/get/[]/keys vs the reference model (exact object for the own schema, parent view for ancestors, refusal of auxiliary/unknown/duplicate), and for every start node x (schema, version): container.query(node=), container.query(), node.metador.query == brute-force scan of the model. Objects of different schema versions coexisting are produced by a process boundary: every write history of an old-environment process is reopened and continued in an upgraded-environment process.",
            "One schema version per environment (documented limitation); get() judged where the environment has a class for the request; any compatible child may serve a parent request (documented); bounded depth/alphabet.",
            "explicit-state BFS of the real implementation vs. reference model (bounded exhaustive)"),
    "C08": ("model_checking", "3 C08",
            "Container BFS with metadata operations as background events; in every reached state: the user-visible tree through visititems/visit/keys/values/items/iter/len/in/get from every group equals a plain h5py tree fed the same user ops and contains no reserved name; every path-taking method (reflected from the H5GroupLike protocol and the wrappers' public methods) x every path position x synthetic and real reserved paths, from the root and from a group, is rejected with the raw container unchanged; every public attribute of the raw object outside the supported protocol is refused.",
            "Plain h5py tree is the reference for the user-visible tree; False/None count as rejection for `in`/`get`; bounded depth/alphabet.",
            "explicit-state BFS of the real implementation + exhaustive method x reserved-path cross product per state"),
    "C16": ("model_checking", "3 C16",
            "Ordering/equality/hash laws on all pairs and triples of 216 reference objects (3 classes x 72 refs), supports() against its definition on all pairs; the plugin registry as a state machine: all registration orders of all subsets (size <=4 quick, <=6 thorough) of 6 versions through each mechanism (constructor, _add_ep, register_in_group) on fresh group objects, with versions/resolve/get/keys/in checked against the reference in every reached state; entry-point name codec over a bounded grammar in both directions; every installed plugin and nested schema obtained without a version must refuse subclassing.",
            "Finite version/name ranges; harness-owned plugin group and fresh instance of the real PGSchema class; registry state rebuilt fresh per execution.",
            "exhaustive enumeration of registration orders on the real registry (explicit-state) + exhaustive law checking"),
    "C06": ("model_checking", "3 C06",
            "BFS over container histories (create/delete datasets and groups, attach/detach metadata of a 3-level schema family + core.file, copy with/without metadata, move, reopen, IH5 patch boundary) on real MetadorContainers over h5py.File and IH5Record, from the empty container and from populated start states; after every op, successful or failed: independent scan of the raw tree against the documented layout (link<->object bijection, UUID uniqueness, schema/package records exactly for used schemas, no empty or orphan bookkeeping), attached set == reference model, live in-memory index == index rebuilt by a fresh MetadorContainer.",
            "Documented container layout is what the scan reads; harness schema family registered like an installed package; bounded depth/alphabet; private index fields compared only between two objects of the same build (semantic normalisation, public answers as well).",
            "explicit-state BFS of the real implementation with invariant + reference-model oracle"),
    "C11": ("fault_enumeration", "3 C11",
            "Patching histories (setup, boundary, fill, commit; IH5Record and IH5MFRecord) run in a writer process under strace; the syscall log is parsed into the ordered list of file mutations (self-validated by byte-identical replay). Every prefix of that list and every torn length of every data-carrying write is materialised as a crash image and judged: committed files byte-identical, committed set alone opens with the state at its commit, complete set refuses / is recognisably uncommitted / shows exactly the last or the new committed state.",
            "Process death at syscall granularity (page-cache order); no block reordering (power loss) - outside the property's wording; quick tier tears HDF5 payload writes at a fixed stride, user-block and manifest writes at every byte.",
            "exhaustive crash-point and torn-write enumeration over a recorded write history of the real code"),
    "C10": ("model_checking", "3 C10",
            "Every deduplicated IH5MFRecord state of the bounded tree exploration gets a stub from its newest manifest: skeleton equality (own scan), all-empty, merge refusal; every existence-based update history (1-2 ops of the alphabet) is applied once through the stub (patch then opened with the real files) and once directly, outcomes and views compared; after every commit the manifest bytes/uuid/skeleton are checked against the user block and the record; manifest_exts inheritance chain.",
            "Directly patched record is the reference; existence-based updates = set/create_group/delete/setattr/delattr/require_group; bounded depth/alphabet.",
            "explicit-state enumeration of record states x exhaustive update histories on the real code"),
    "C04": ("fault_enumeration", "3 C04",
            "For every deduplicated valid record of the bounded tree exploration (1-3 containers, both classes) every single corruption of the catalogue (each payload byte and each byte of the newest manifest XOR/+1, truncations, extensions, removal of each element, foreign/forked/duplicated containers, manifest removed/foreign/older) is applied to a copy; open('r') must fail iff the set is incoherent, and coherent prefixes/forks must open with the state at their commit.",
            "Coherence predicate is computed by the harness from how it built the set; user-block bytes are not in the property's corruption list; quick tier enumerates bytes for 4 records, thorough for all.",
            "exhaustive single-fault enumeration against the real open path"),
    "C02": ("model_checking", "3 C02",
            "BFS over the record lifecycle alphabet (writes, read, create/commit/discard patch, close with/without commit, reopen r/r+/a by name and by permuted list, merge) on real IH5Record and IH5MFRecord objects, deduplicated on open-state + raw container shapes; a monitor after every transition checks sha256 identity of every file ever committed (incl. manifest sidecars) and re-opens the committed file sets in place.",
            "Committed = user block carries hdf5_hashsum (documented field, read by the harness's own parser); mode 'w' excluded as the property says; tmpfs.",
            "explicit-state BFS of the real implementation with a byte-identity monitor"),
    "C05": ("model_checking", "3 C05",
            "Every deduplicated source record of the bounded tree exploration (IH5Record <=4 containers, IH5MFRecord) is merged; merged tree vs. overlay view, merged user block/manifest vs. source, source untouched on disk and through the open object, refusal with uncommitted changes and with stubs; then every follow-up patch (1-2 ops of the alphabet) made on the source is opened on top of the merged container and compared.",
            "Overlay view right before the merge is the reference (C01 owns overlay correctness); bounded depth/alphabet.",
            "explicit-state enumeration of source records x exhaustive follow-up patches on the real code"),
    "C03": ("model_checking", "3 C03",
            "Every deduplicated record state of the bounded tree exploration (IH5Record <=4 containers, IH5MFRecord) is closed and reopened by name and by the explicit file list in every permutation, with r and r+, and discard_patch is compared with the view at the last commit; plus the complete matrix on-disk situation x open mode x argument form x class x prefix-related neighbour records with directory hashes before/after.",
            "View before close is the reference (differential); mode table is the h5py.File contract (validated against h5py on single files); tmpfs.",
            "explicit-state enumeration of record states + exhaustive configuration matrix on the real code"),
    "C01": ("model_checking", "3 C01",
            "Exhaustive BFS over tree-operation histories (bounded depth, <=3-4 containers) on a real IH5Record in lock-step with h5py(core) as the plain-tree reference, deduplicated on the raw persisted state; plus a complete directed grammar of replace-then-touch chains over up to 5-6 containers. Every transition compares outcome and the full view through all listing primitives.",
            "h5py core-driver file is the reference tree; values are fresh integers; bounded depth and key alphabet (seed renames keys).",
            "explicit-state BFS of the real implementation vs. reference model (bounded exhaustive)"),
}

# what the third round of independently written changes added to the enumeration (DESIGN.md §9.5)
ADDED = {
    "C01": "Further families: 3-level and name-repeating paths, must-fail writes, boundary values incl. the reserved value in three spellings, copy/move relative to a sub-group, absolute paths addressed through another group's handle (directed), require_dataset mismatches; per node the listing through .parent and early-exit visits are compared.",
    "C02": "Also: opens with explicit manifest_file=, refused exclusive creates, opens of a proper prefix, merge onto existing targets, base-less directories x every open mode; the state key includes the record object's plain attributes.",
    "C03": "The refused-mutation list of the 'r' cell is also run through every record handle that navigation hands out.",
    "C04": "Byte faults are repeated on the set without its base (allow_baseless=True); after every removal the directory is also opened by name in r/r+/a.",
    "C05": "Also: merge through the other record class, sources with a group name repeated deeper in a path.",
    "C06": "Alphabet also: copy of the root, node objects as copy source, one kept node.meta object used twice, moves back to an earlier path; an odd-names family; start states rich / nested / descendants; raw-scan invariant 'no reserved-name entity outside the two documented places'.",
    "C07": "Also an odd-names family and a start state with child, grandchild and sibling objects of a never-attached ancestor.",
    "C08": "Also an odd-names family (reserved prefix as infix/suffix), reversed() listings, parent listings and early-exit visits against the plain tree.",
    "C09": "The compared view includes parent listings and early-exit visits; directed family with a group named like its child; copy of the root and node-object sources.",
    "C10": "A second spelling with prefix-related sibling names; manifest extensions through every sequence of <=2 (thorough 3) patches made directly / by resuming an uncommitted patch / via a stub, with or without new extensions.",
    "C11": "Recovery modes on every uncommitted crash image: resume+discard, resume+commit, discard+refused commit, refused commit on 'r', read-only merge (an interrupted patch must not come out as a committed container).",
    "C12": "Also: JSON-LD constants with falsy values, a re-use oracle (copy(update=..) of an instance serialised before), NEL inside strings.",
    "C13": "Also: new fields by bare assignment, two products of one type factory (same qualified name), numeric bounds given through Annotated Field().",
    "C14": "Operands are converted with from_partial() before the merge and the merge result afterwards.",
    "C15": "The state key includes the flags of the container object a wrapper hangs on; transitions also: mutating the dict returned by .acl, metadata listings (values/items -> stored node).",
    "C16": "Every second reference in the pair/triple matrices is a copy(update=..) of a used neighbour.",
    "C17": "Also files of 1 MiB +-1 and 3 MiB, and files embedded below a group whose name re-appears in the path with group copy/move/merge.",
    "C18": "Also a family with prefix-related sibling names and one with symlink targets differing in letter case only.",
    "C19": "The second build of every tree is hashed as Path('.') from inside and by its relative name from the parent.",
    "C20": "Also child-schema objects attached under the parent schema's name and the descendants start state.",
}


def build():
    checks = []
    for pid, (cat, ref, text, note, tech) in sorted(CHECKS.items()):
        if pid in ADDED:
            text = text.rstrip() + " " + ADDED[pid]
        checks.append({
            "property_id": pid,
            "quick_cmd": f"./check {pid} --tier quick",
            "thorough_cmd": f"./check {pid} --tier thorough",
            "evidence_file": f"/verif/evidence/{pid}.json",
            "replay_cmd_template": f"./check {pid} --replay {{path}}",
            "engine": "mc-explorer",
            "level_claimed": {"category": cat, "text": text, "design_ref": f"DESIGN.md §{ref}"},
            "level_note": note,
            "technique": tech,
        })
    props = [json.loads(l)["id"] for l in open(os.path.join(HERE, "properties.jsonl"))]
    na = [{"property_id": p, "reason": NOT_APPLICABLE.get(p, "check not built yet in this revision (planned, see DESIGN.md §3)")} for p in props if p not in CHECKS]
    return {
        "version": 1,
        "setup_cmd": "cd /verif && /venv/bin/python -c \"import sys; sys.path.insert(0,'/verif'); import mc.env, h5py, jsonschema, metador_core\"",
        "hooks": {
            "guard": "METADOR_CORE_VERIF",
            "enable": "no hooks: checks import /repo/src directly (editable install); the guard variable is unused",
            "baseline_off_cmd": "cd /repo && /venv/bin/python -m pytest -ra -q -p no:cacheprovider --timeout=900 --continue-on-collection-errors",
            "source_commits": [],
            "add_only": True,
        },
        "engines": [{"name": "mc-explorer", "path": "/verif/mc", "serves_properties": sorted(CHECKS),
                     "kind_free_text": "hand-written explicit-state / bounded-exhaustive explorer driving the real Python code (level-synchronous BFS over 16 worker processes, reference models in Python)"}],
        "checks": checks,
        "not_applicable": na,
        "notes": "All checks: ./check <ID> [--tier quick|thorough]; VERIF_SEED renames the alphabet; known findings in /verif/known_findings.json.",
    }

NOT_APPLICABLE = {}

if __name__ == "__main__":
    doc = build()
    import jsonschema
    jsonschema.validate(doc, json.load(open(os.path.join(HERE, "schemas", "MANIFEST.schema.json"))))
    json.dump(doc, open(os.path.join(HERE, "MANIFEST.json"), "w"), indent=1)
    print("MANIFEST.json written:", len(doc["checks"]), "checks,", len(doc["not_applicable"]), "not applicable")
