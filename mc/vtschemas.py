"""Harness schema family 'vt.*' (looks like an installed plugin package).

vt.aa 1.0.0 / 1.1.0 / 2.0.0 ;  vt.bb (child of aa) 1.0.0 / 1.1.0 ;  vt.cc (child of bb) 1.0.0 / 1.1.0 ;
vt.dd (child of aa, sibling of bb) 1.0.0 / 1.1.0 ;  vt.xx auxiliary 1.0.0.
The *_10 classes form the "old environment", the *_11 / _20 classes the "upgraded environment".
"""
from typing import Optional

from metador_core.schema import MetadataSchema


class AA10(MetadataSchema):
    class Plugin:
        name = "vt.aa"
        version = (1, 0, 0)

    x: int
    s: Optional[str]


class BB10(AA10):
    class Plugin:
        name = "vt.bb"
        version = (1, 0, 0)

    b: Optional[int]


class CC10(BB10):
    class Plugin:
        name = "vt.cc"
        version = (1, 0, 0)

    c: Optional[str]


class DD10(AA10):
    class Plugin:
        name = "vt.dd"
        version = (1, 0, 0)

    d: Optional[int]


class A010(AA10):
    """child of vt.aa whose entry point name sorts before the parent's"""

    class Plugin:
        name = "vt.a0"
        version = (1, 0, 0)

    e: Optional[int]


class XX10(MetadataSchema):
    class Plugin:
        name = "vt.xx"
        version = (1, 0, 0)
        auxiliary = True

    q: int


# ---- upgraded environment: minor releases accept strictly more


class AA11(MetadataSchema):
    class Plugin:
        name = "vt.aa"
        version = (1, 1, 0)

    x: int
    s: Optional[str]
    y: Optional[int]


class BB11(AA11):
    class Plugin:
        name = "vt.bb"
        version = (1, 1, 0)

    b: Optional[int]


class CC11(BB11):
    class Plugin:
        name = "vt.cc"
        version = (1, 1, 0)

    c: Optional[str]


class DD11(AA11):
    class Plugin:
        name = "vt.dd"
        version = (1, 1, 0)

    d: Optional[int]


class A011(AA11):
    class Plugin:
        name = "vt.a0"
        version = (1, 1, 0)

    e: Optional[int]


class AA20(MetadataSchema):
    class Plugin:
        name = "vt.aa"
        version = (2, 0, 0)

    x: int
    z: int


CLASSES = {
    "old": [AA10, BB10, CC10, DD10, A010, XX10],
    "new": [AA11, BB11, CC11, DD11, A011, XX10],
    "v2": [AA20],
}
