import json, os, sys
out, name, prop, head, dc, dm, pinned, tsv = sys.argv[1:9]
needs = {}
np_ = os.path.join(os.path.dirname(out), "NEEDS.json")
if os.path.exists(np_):
    needs = json.load(open(np_))
checks = []
for ln in open(tsv):
    f = ln.rstrip("\n").split("\t")
    if len(f) >= 4:
        checks.append({"check": f[0], "tier": f[1], "exit": int(f[2]), "violation_lines": int(f[3]), "first": f[4] if len(f) > 4 else ""})
meta = {
    "property": prop,
    "name": name,
    "origin": "fresh sub-agent given only the property text and a scratch worktree of the repository",
    "needs": needs.get(name, ""),
    "repo_head": head,
    "how_run": "patch applied to a scratch worktree of /repo HEAD; pinned suite and demo.py run there; checks run with VERIF_REPO=<worktree> ./check <ID> --tier quick (mc/tools_confirm_seeded.sh)",
    "confirmed": {"demo_exit_on_clean_tree": int(dc), "demo_exit_with_change": int(dm), "pinned_suite_with_change": pinned},
    "checks_run": checks,
}
json.dump(meta, open(os.path.join(out, "meta.json"), "w"), indent=1)
