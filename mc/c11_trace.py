"""Parse an strace log (-xx) of the C11 writer into an ordered list of file mutations."""
from __future__ import annotations

import os
import re

STRACE_ARGS = [
    "strace", "-xx", "-s", "100000000", "-e",
    "trace=openat,open,creat,read,pread64,write,pwrite64,writev,lseek,ftruncate,truncate,unlink,unlinkat,"
    "rename,renameat,renameat2,close,dup,dup2,dup3,fcntl",
]

_line = re.compile(r"^(\w+)\((.*)\)\s+= (-?\d+|\?)(.*)$", re.S)


def _unhex(s: str) -> bytes:
    # s is the inside of a "..." literal printed with -xx
    out = bytearray()
    i = 0
    while i < len(s):
        if s[i] == "\\" and s[i + 1] == "x":
            out.append(int(s[i + 2 : i + 4], 16))
            i += 4
        else:  # should not happen with -xx, but be safe
            out.append(ord(s[i]))
            i += 1
    return bytes(out)


def _split_args(a: str):
    """Split top-level comma separated args; string literals contain no quotes/commas with -xx."""
    parts, cur, depth, inq = [], "", 0, False
    for ch in a:
        if ch == '"':
            inq = not inq
        if not inq:
            if ch in "([{":
                depth += 1
            elif ch in ")]}":
                depth -= 1
            elif ch == "," and depth == 0:
                parts.append(cur.strip())
                cur = ""
                continue
        cur += ch
    if cur.strip():
        parts.append(cur.strip())
    return parts


def _str(arg: str) -> bytes:
    m = re.match(r'^"(.*)"(\.\.\.)?$', arg, re.S)
    assert m, arg[:80]
    assert not m.group(2), "truncated string in strace log (raise -s)"
    return _unhex(m.group(1))


def parse(logfile: str, root: str):
    """Returns list of events touching files under `root`:
    ("create", name) ("trunc", name, length) ("write", name, offset, bytes) ("unlink", name)
    ("rename", old, new) ("mark", text)
    """
    root = os.path.realpath(root)
    fds = {}  # fd -> [name or None, offset, append?]
    events = []
    existing = set()

    def rel(pathb: bytes):
        p = pathb.decode("utf-8", "replace")
        if not p.startswith("/"):
            return None
        p = os.path.normpath(p)
        if p.startswith(root + "/"):
            r = p[len(root) + 1 :]
            return r if "/" not in r else None
        return None

    with open(logfile, "r", errors="replace") as f:
        for raw in f:
            raw = raw.rstrip("\n")
            m = _line.match(raw)
            if not m:
                if raw.startswith(("---", "+++")) or not raw.strip():
                    continue
                raise AssertionError("unparsed strace line: " + raw[:200])
            call, args, ret, _tail = m.groups()
            if ret == "?":
                continue
            ret = int(ret)
            if call in ("openat", "open", "creat"):
                a = _split_args(args)
                if call == "openat":
                    a = a[1:]
                if ret < 0:
                    continue
                name = rel(_str(a[0]))
                flags = a[1] if len(a) > 1 and call != "creat" else "O_CREAT|O_WRONLY|O_TRUNC"
                fds[ret] = [name, 0, "O_APPEND" in flags]
                if name is not None:
                    if "O_CREAT" in flags and name not in existing:
                        existing.add(name)
                        events.append(("create", name))
                    elif "O_TRUNC" in flags:
                        events.append(("trunc", name, 0))
                continue
            if call == "close":
                fds.pop(int(args.strip()), None)
                continue
            if call in ("dup", "dup2", "dup3"):
                a = _split_args(args)
                old = int(a[0])
                if ret >= 0 and old in fds:
                    fds[ret] = fds[old]  # shared offset (same list object)
                continue
            if call == "fcntl":
                a = _split_args(args)
                if ret >= 0 and len(a) > 1 and a[1].startswith("F_DUPFD") and int(a[0]) in fds:
                    fds[ret] = fds[int(a[0])]
                continue
            if call in ("unlink", "unlinkat"):
                a = _split_args(args)
                name = rel(_str(a[1] if call == "unlinkat" else a[0]))
                if ret == 0 and name is not None:
                    existing.discard(name)
                    events.append(("unlink", name))
                continue
            if call in ("rename", "renameat", "renameat2"):
                a = _split_args(args)
                strs = [x for x in a if x.startswith('"')]
                o, n = rel(_str(strs[0])), rel(_str(strs[1]))
                if ret == 0 and (o is not None or n is not None):
                    assert o is not None and n is not None, "rename across the traced directory"
                    existing.discard(o)
                    existing.add(n)
                    events.append(("rename", o, n))
                continue
            if call == "truncate":
                a = _split_args(args)
                name = rel(_str(a[0]))
                if ret == 0 and name is not None:
                    events.append(("trunc", name, int(a[1])))
                continue
            # fd based calls
            a = _split_args(args)
            try:
                fd = int(a[0])
            except ValueError:
                continue
            ent = fds.get(fd)
            if call == "write" and fd == 2 and ret > 0:
                data = _str(a[1])
                if data.startswith(b"@@MARK "):
                    events.append(("mark", data.decode()[7:-2]))
                continue
            if ent is None:
                continue
            name = ent[0]
            if call == "read":
                if ret > 0:
                    ent[1] += ret
            elif call == "pread64":
                pass
            elif call == "lseek":
                if ret >= 0:
                    ent[1] = ret
            elif call == "write":
                if ret > 0:
                    data = _str(a[1])[:ret]
                    if name is not None:
                        if ent[2]:
                            events.append(("append", name, data))
                        else:
                            events.append(("write", name, ent[1], data))
                    ent[1] += ret
            elif call == "pwrite64":
                if ret > 0 and name is not None:
                    events.append(("write", name, int(a[3]), _str(a[1])[:ret]))
            elif call == "writev":
                raise AssertionError("writev on a traced file is not modelled")
            elif call == "ftruncate":
                if ret == 0 and name is not None:
                    events.append(("trunc", name, int(a[1])))
    return events


def apply_event(files: dict, ev, torn: int | None = None):
    """Apply one event to an in-memory image {name: bytearray}. torn = only the first `torn` bytes of a write."""
    k = ev[0]
    if k == "create":
        files.setdefault(ev[1], bytearray())
    elif k == "trunc":
        b = files.setdefault(ev[1], bytearray())
        if ev[2] <= len(b):
            del b[ev[2] :]
        else:
            b.extend(b"\x00" * (ev[2] - len(b)))
    elif k == "write":
        b = files.setdefault(ev[1], bytearray())
        data = ev[3] if torn is None else ev[3][:torn]
        off = ev[2]
        if off > len(b):
            b.extend(b"\x00" * (off - len(b)))
        b[off : off + len(data)] = data
    elif k == "append":
        b = files.setdefault(ev[1], bytearray())
        b.extend(ev[2] if torn is None else ev[2][:torn])
    elif k == "unlink":
        files.pop(ev[1], None)
    elif k == "rename":
        if ev[1] in files:
            files[ev[2]] = files.pop(ev[1])
    elif k == "mark":
        pass
    else:
        raise AssertionError(ev)


def write_image(files: dict, d: str):
    for n, b in files.items():
        with open(os.path.join(d, n), "wb") as f:
            f.write(bytes(b))
