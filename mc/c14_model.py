"""C14 helpers (1/2): class grammar, value corpora, construction modes, observation, reference merge.

Everything the C14 driver enumerates is described here as *data* (JSON-able "specs"), so a
violation can be written to a replay file and rebuilt from scratch:

  spec   ::= {field: value}                       (a missing key = field not provided)
  value  ::= int | bool | str | float             scalars
           | {"L": [int, ...]}                    list of ints
           | {"S": [int, ...]}                    set of ints (sorted, unique)
           | {"M": "<class id>", "f": spec}       nested model of that grammar class
           | {"LM": [ {"M":..,"f":..}, ... ]}     list of nested models

Nothing in here is shared between executions: every `build()` creates new Python lists, sets,
dicts and model instances from the (never mutated) spec.
"""
from __future__ import annotations

import mc.env  # noqa: F401  (NumPy shim first)

import json
from typing import List, Optional, Set

from pydantic import BaseModel

from metador_core.schema import MetadataSchema
from metador_core.schema.partial import PartialFactory, PartialModel

# =====================================================================================
# 1. The model classes (grammar instances), once per factory.
#    No `from __future__ import annotations` semantics are needed by the classes: the hints are
#    real objects, except for the recursive reference which is resolved at module level.
# =====================================================================================

# ---- plain pydantic BaseModel, partials made by `PartialFactory` ("" is a legal str value)


class PM(BaseModel):
    a: Optional[int]
    k: Optional[List[int]]


class PM2(PM):
    b: Optional[int]


class PM3(PM2):
    d: Optional[int]


class PMX(PM):  # sibling of PM2: unrelated to it
    c: Optional[int]


class PPrim(BaseModel):
    i: Optional[int]
    b: Optional[bool]
    s: Optional[str]
    f: Optional[float]


class PScal(BaseModel):
    i: Optional[int]
    s: Optional[str]


class PScal2(BaseModel):
    b: Optional[bool]
    f: Optional[float]


class PLst(BaseModel):
    l: List[int]  # noqa: E741
    ol: Optional[List[int]]


class PSets(BaseModel):
    st: Set[int]
    os: Optional[Set[int]]


class PNest(BaseModel):
    m: PM
    om: Optional[PM]
    lm: List[PM]


class PRec(BaseModel):
    v: Optional[int]
    r: Optional["PRec"]


PRec.update_forward_refs()


class PChain(BaseModel):
    m: Optional[PM]
    lm: Optional[List[PM]]


class PSib(BaseModel):
    m: Optional[PM]


# ---- MetadataSchema, partials made by `PartialSchemas` (`Schema.Partial`)


class SM(MetadataSchema):
    a: Optional[int]
    k: Optional[List[int]]


class SM2(SM):
    b: Optional[int]


class SM3(SM2):
    d: Optional[int]


class SMX(SM):  # sibling of SM2: unrelated to it
    c: Optional[int]


class SPrim(MetadataSchema):
    class Plugin:
        name = "vt.c14prim"
        version = (0, 1, 0)

    i: Optional[int]
    b: Optional[bool]
    s: Optional[str]
    f: Optional[float]


class SScal(MetadataSchema):
    class Plugin:
        name = "vt.c14scal"
        version = (0, 1, 0)

    i: Optional[int]
    s: Optional[str]


class SScal2(MetadataSchema):
    class Plugin:
        name = "vt.c14scal2"
        version = (0, 1, 0)

    b: Optional[bool]
    f: Optional[float]


class SLst(MetadataSchema):
    class Plugin:
        name = "vt.c14lst"
        version = (0, 1, 0)

    l: List[int]  # noqa: E741
    ol: Optional[List[int]]


class SSets(MetadataSchema):
    class Plugin:
        name = "vt.c14sets"
        version = (0, 1, 0)

    st: Set[int]
    os: Optional[Set[int]]


class SNest(MetadataSchema):
    class Plugin:
        name = "vt.c14nest"
        version = (0, 1, 0)

    m: SM
    om: Optional[SM]
    lm: List[SM]


class SRec(MetadataSchema):
    class Plugin:
        name = "vt.c14rec"
        version = (0, 1, 0)

    v: Optional[int]
    r: Optional["SRec"]


SRec.update_forward_refs()


class SChain(MetadataSchema):
    class Plugin:
        name = "vt.c14chain"
        version = (0, 1, 0)

    m: Optional[SM]
    lm: Optional[List[SM]]


class SSib(MetadataSchema):
    class Plugin:
        name = "vt.c14sib"
        version = (0, 1, 0)

    m: Optional[SM]


FACTORIES = ("plain", "schema", "installed")
SCHEMA_LIKE = ("schema", "installed")  # MetadataSchema based: YAML parsing, harvesters, no empty strings

_PY = {
    "plain": dict(M=PM, M2=PM2, M3=PM3, Prim=PPrim, Scal=PScal, Scal2=PScal2, Lst=PLst, Sets=PSets, Nest=PNest, Rec=PRec, Chain=PChain, MX=PMX, Sib=PSib),
    "schema": dict(M=SM, M2=SM2, M3=SM3, Prim=SPrim, Scal=SScal, Scal2=SScal2, Lst=SLst, Sets=SSets, Nest=SNest, Rec=SRec, Chain=SChain, MX=SMX, Sib=SSib),
}

TOP_CLASSES = ("Prim", "Scal", "Scal2", "Lst", "Sets", "Nest", "Rec", "Chain")
# classes whose nested position holds *unrelated* sibling classes: associativity is not claimed
EXTRA_CLASSES = ("Sib",)
# views (field subsets) of schemas that are installed with metador-core itself
INSTALLED_CLASSES = ("FileOpt", "FileReq", "Image")
_INSTALLED_PLUGIN = {"FileOpt": "core.file", "FileReq": "core.file", "Image": "core.imagefile"}


def class_ids(factory):
    return INSTALLED_CLASSES if factory == "installed" else TOP_CLASSES + EXTRA_CLASSES


# class id -> [(field, kind text, required in the complete model, declared nested class id or None)]
DESCR = {
    "M": [("a", "Optional[int]", False, None), ("k", "Optional[List[int]]", False, None)],
    "Prim": [
        ("i", "Optional[int]", False, None),
        ("b", "Optional[bool]", False, None),
        ("s", "Optional[str]", False, None),
        ("f", "Optional[float]", False, None),
    ],
    "Scal": [("i", "Optional[int]", False, None), ("s", "Optional[str]", False, None)],
    "Scal2": [("b", "Optional[bool]", False, None), ("f", "Optional[float]", False, None)],
    "Lst": [("l", "List[int]", True, None), ("ol", "Optional[List[int]]", False, None)],
    "Sets": [("st", "Set[int]", True, None), ("os", "Optional[Set[int]]", False, None)],
    "Nest": [("m", "M", True, "M"), ("om", "Optional[M]", False, "M"), ("lm", "List[M]", True, "M")],
    "Rec": [("v", "Optional[int]", False, None), ("r", "Optional[Rec]", False, "Rec")],
    "Chain": [("m", "Optional[M]", False, "M"), ("lm", "Optional[List[M]]", False, "M")],
    "Sib": [("m", "Optional[M]", False, "M")],
    # installed schemas (core.file 0.1.0, core.imagefile 0.1.0); only the listed fields are used
    "FileOpt": [
        ("contentSize", "int", True, None),
        ("alternateName", "Optional[List[str]]", False, None),
        ("keywords", "Optional[Set[str]]", False, None),
        ("copyrightYear", "Optional[int]", False, None),
        ("filename", "str", True, None),  # (never provided in this view: no complete instances)
    ],
    "FileReq": [
        ("filename", "str", True, None),
        ("contentSize", "int", True, None),
        ("sha256", "str", True, None),
        ("encodingFormat", "str", True, None),
    ],
    "Image": [
        ("width", "Pixels", True, "Pixels"),
        ("height", "Pixels", True, "Pixels"),
        ("contentSize", "int", True, None),
        ("filename", "str", True, None),  # (never provided in this view)
    ],
    "Pixels": [("value", "Number", True, None), ("unitText", "Optional[str]", False, None)],
}
DESCR["M2"] = DESCR["M"] + [("b", "Optional[int]", False, None)]
DESCR["M3"] = DESCR["M2"] + [("d", "Optional[int]", False, None)]

DESCR["MX"] = DESCR["M"] + [("c", "Optional[int]", False, None)]

PARENT = {"M2": "M", "M3": "M2", "MX": "M"}  # the chain M <- M2 <- M3, and MX a sibling of M2


def ancestors(c):
    out = [c]
    while c in PARENT:
        c = PARENT[c]
        out.append(c)
    return out


def related(c1, c2):
    """Do the two grammar classes lie on one inheritance chain?"""
    return c1 in ancestors(c2) or c2 in ancestors(c1)


def py_class(factory, cid):
    if factory == "installed":
        if cid == "Pixels":
            from metador_core.schema.common import Pixels

            return Pixels
        from metador_core.plugins import schemas

        return schemas.get(_INSTALLED_PLUGIN[cid], (0, 1, 0))
    return _PY[factory][cid]


_PARTIALS = {}


def partial_class(factory, cid):
    """The partial class, obtained the way a user obtains it."""
    key = (factory, cid)
    if key not in _PARTIALS:
        c = py_class(factory, cid)
        _PARTIALS[key] = PartialFactory.get_partial(c) if factory == "plain" else c.Partial
    return _PARTIALS[key]


# =====================================================================================
# 2. Value corpora and instance enumeration
# =====================================================================================

MISSING = "__missing__"

_INT_POOL = [(1, 2), (7, -3), (2, 1), (100, 5)]
_STR_POOL = [("a", "b"), ("x y", "ß"), ("0", "false"), ("b", "a")]
_FLT_POOL = [1.5, -2.25, 1000.0, 0.5]


def alphabet(seed):
    """The seed only renames the truthy representatives; falsy values are fixed by the property."""
    i1, i2 = _INT_POOL[seed % 4]
    s1, s2 = _STR_POOL[seed % 4]
    f1 = _FLT_POOL[seed % 4]
    return dict(i1=i1, i2=i2, s1=s1, s2=s2, f1=f1)


def _L(*xs):
    return {"L": list(xs)}


def _S(*xs):
    return {"S": sorted(set(xs))}


def _M(cid="M", **f):
    return {"M": cid, "f": dict(f)}


def _LM(*ms):
    return {"LM": list(ms)}


def corpora(factory, cid, seed):
    """Per-field value corpora, most important values first (shrinking drops from the end)."""
    A = alphabet(seed)
    i1, i2, s1, s2, f1 = A["i1"], A["i2"], A["s1"], A["s2"], A["f1"]
    ints = [MISSING, 0, i1, i2]
    strs = [MISSING, "", s1, s2] if factory == "plain" else [MISSING, s1, s2]  # schemas forbid ""
    if s1 == "x y" and factory == "installed":
        s1, s2 = "x-y", "ü"  # (file names / keywords: keep them free of blanks)
    if cid == "Prim":
        return [("i", ints), ("b", [MISSING, False, True]), ("s", strs), ("f", [MISSING, 0.0, f1])]
    if cid == "Scal":
        return [("i", ints + [-1]), ("s", strs + [s1 + s2])]
    if cid == "Scal2":
        return [("b", [MISSING, False, True]), ("f", [MISSING, 0.0, f1, -f1, 2 * f1])]
    if cid == "Lst":
        return [
            ("l", [MISSING, _L(), _L(i1), _L(i2, i1), _L(0)]),
            ("ol", [MISSING, _L(), _L(0), _L(i1, i1)]),
        ]
    if cid == "Sets":
        return [
            ("st", [MISSING, _S(), _S(i1), _S(i1, i2), _S(0)]),
            ("os", [MISSING, _S(), _S(i2), _S(0, i1)]),
        ]
    if cid == "Nest":
        return [
            ("m", [MISSING, _M(a=0), _M(a=i1), _M(), _M(k=_L()), _M(k=_L(i1)), _M(a=0, k=_L(0))]),
            ("om", [MISSING, _M(k=_L(i2)), _M(), _M(a=0)]),
            ("lm", [MISSING, _LM(_M(a=0)), _LM(), _LM(_M()), _LM(_M(a=i1), _M())]),
        ]
    if cid == "Rec":
        R = lambda **f: _M("Rec", **f)  # noqa: E731
        return [
            ("v", [MISSING, 0, i1]),
            (
                "r",
                [
                    MISSING,
                    R(),
                    R(v=0),
                    R(v=i1),
                    R(r=R()),
                    R(r=R(v=0)),
                    R(v=0, r=R(v=i1)),
                    R(v=i1, r=R(v=i1, r=R())),
                    R(r=R(r=R(v=0))),
                ],
            ),
        ]
    if cid == "Chain":
        return [
            (
                "m",
                [
                    MISSING,
                    _M("M"),
                    _M("M2"),
                    _M("M3", d=0),
                    _M("M", a=0),
                    _M("M2", b=0),
                    _M("M2", a=i1),
                    _M("M", a=i1),
                    _M("M2", a=0, b=i1),
                    _M("M3", a=i1, b=0),
                    _M("M", k=_L(i1)),
                    _M("M2", k=_L()),
                    _M("M3", k=_L(i2), d=i1),
                    _M("M3"),
                ],
            ),
            ("lm", [MISSING, _LM(_M("M2", b=0)), _LM(_M("M", a=i1), _M("M3"))]),
        ]
    if cid == "FileOpt":
        return [
            ("contentSize", [MISSING, 0, i1, i2]),
            ("alternateName", [MISSING, _L(), _L(s1), _L(s2, s1)]),
            ("keywords", [MISSING, _S(), _S(s1), _S(s1, s2)]),
            ("copyrightYear", [MISSING, 0, 2000 + i1 % 10]),
        ]
    if cid == "FileReq":
        return [
            ("filename", [MISSING, s1 + ".txt", s2 + ".txt"]),
            ("contentSize", [MISSING, 0, i1]),
            ("sha256", [MISSING, "ab12", "cd34"]),
            ("encodingFormat", [MISSING, "text/plain", "image/png"]),
        ]
    if cid == "Image":
        px = lambda v: _M("Pixels", value=v, unitText="px")  # noqa: E731
        return [
            ("width", [MISSING, px(0), px(100 + i1), px(i2)]),
            ("height", [MISSING, px(50), px(0)]),
            ("contentSize", [MISSING, 0]),
        ]
    if cid == "Sib":
        return [
            (
                "m",
                [
                    MISSING,
                    _M("M", a=0),
                    _M("M2", b=0),
                    _M("MX", c=0),
                    _M("M2", a=i1),
                    _M("MX", a=i1, c=i1),
                    _M("M"),
                    _M("MX"),
                    _M("M2"),
                    _M("M", a=i2),
                    _M("M2", a=0, b=i1),
                    _M("MX", a=0, c=i2),
                ],
            )
        ]
    raise KeyError(cid)


def shrink(corp, cap):
    """Deterministically shrink corpora until the cross product is <= cap.

    Always drops the last (least important) value of the currently longest corpus (ties: the
    last such field).  Never samples.
    """
    corp = [(f, list(vs)) for f, vs in corp]

    def size():
        n = 1
        for _, vs in corp:
            n *= len(vs)
        return n

    while size() > cap:
        longest = max(len(vs) for _, vs in corp)
        if longest <= 1:
            break
        idx = max(i for i, (_, vs) in enumerate(corp) if len(vs) == longest)
        corp[idx][1].pop()
    return corp


def instances(corp):
    """Full cross product of the (shrunk) corpora as a list of specs, simplest first.

    Order: by number of provided fields, then by the position of the values in their corpora,
    so that index 0 is always the empty partial and early counterexamples are small.
    """
    out = [({}, ())]
    for f, vs in corp:
        nxt = []
        for spec, key in out:
            for vi, v in enumerate(vs):
                s2 = dict(spec)
                if not (isinstance(v, str) and v == MISSING):
                    s2[f] = v
                nxt.append((s2, key + (vi,)))
        out = nxt
    out.sort(key=lambda sk: (len(sk[0]), sum(sk[1]), sk[1]))
    return [s for s, _ in out]


def is_empty(spec):
    return not spec


def is_complete(cid, spec):
    """Can a complete (non-partial) object be built from the spec?"""
    for f, _kind, req, _n in DESCR[cid]:
        if req and f not in spec:
            return False
    for v in spec.values():
        for m in _nested(v):
            if not is_complete(m["M"], m["f"]):
                return False
    return True


def _nested(v):
    if isinstance(v, dict):
        if "M" in v:
            return [v]
        if "LM" in v:
            return v["LM"]
    return []


def declared_only(cid, spec):
    """True iff every nested value has exactly the declared class of its field.

    Only such specs can be expressed as plain dict / JSON / YAML (which carry no class).
    """
    decl = {f: n for f, _k, _r, n in DESCR[cid]}
    for f, v in spec.items():
        for m in _nested(v):
            if m["M"] != decl[f] or not declared_only(m["M"], m["f"]):
                return False
    return True


# =====================================================================================
# 3. Spec -> fresh Python inputs
# =====================================================================================


def plain(spec, sets_as_lists=False):
    """Fresh plain data (dict/list/set/scalars) for a spec; also the *expected observation*."""
    out = {}
    for f, v in spec.items():
        out[f] = _plain_v(v, sets_as_lists)
    return out


def _plain_v(v, sal):
    if isinstance(v, dict):
        if "L" in v:
            return list(v["L"])
        if "S" in v:
            return sorted(v["S"]) if sal else set(v["S"])
        if "M" in v:
            return plain(v["f"], sal)
        if "LM" in v:
            return [plain(m["f"], sal) for m in v["LM"]]
        raise ValueError(v)
    return v


def _objects(factory, spec, mk):
    """Fresh kwargs with nested values built as model instances by mk(factory, class id)."""
    out = {}
    for f, v in spec.items():
        if isinstance(v, dict) and "M" in v:
            out[f] = mk(factory, v["M"])(**_objects(factory, v["f"], mk))
        elif isinstance(v, dict) and "LM" in v:
            out[f] = [mk(factory, m["M"])(**_objects(factory, m["f"], mk)) for m in v["LM"]]
        else:
            out[f] = _plain_v(v, False)
    return out


def complete_object(factory, cid, spec):
    """A fresh complete (non-partial) model instance; nested values are complete instances."""
    return py_class(factory, cid)(**_objects(factory, spec, py_class))


def to_yaml(v, ind=0):
    """Minimal block-style YAML emitter (scalars spelled as JSON, which YAML 1.2 accepts)."""
    pad = "  " * ind
    if isinstance(v, dict):
        if not v:
            return pad + "{}\n"
        s = ""
        for k, x in v.items():
            if isinstance(x, (dict, list)) and x:
                s += f"{pad}{k}:\n{to_yaml(x, ind + 1)}"
            else:
                s += f"{pad}{k}: {_yaml_scalar(x)}\n"
        return s
    if isinstance(v, list):
        if not v:
            return pad + "[]\n"
        s = ""
        for x in v:
            if isinstance(x, (dict, list)) and x:
                body = to_yaml(x, ind + 1)
                s += f"{pad}- " + body[len(pad) + 2 :]
            else:
                s += f"{pad}- {_yaml_scalar(x)}\n"
        return s
    return pad + _yaml_scalar(v) + "\n"


def _yaml_scalar(x):
    if isinstance(x, dict):
        return "{}"
    if isinstance(x, list):
        return "[]"
    return json.dumps(x, ensure_ascii=False)


YAML_HEADER = "# partial metadata\n"  # a comment: not JSON, so the YAML branch of parse_raw is taken

# ---- construction modes ---------------------------------------------------------------
# name -> (needs complete spec, needs declared-only spec, factories)
MODES = {
    "kw": (False, False, FACTORIES),
    "parse_obj": (False, True, FACTORIES),
    "parse_json": (False, True, FACTORIES),
    "parse_yaml": (False, True, SCHEMA_LIKE),
    "to_partial_dict": (False, True, FACTORIES),
    "to_partial_dict_ii": (False, True, FACTORIES),
    "to_partial": (True, False, FACTORIES),
    "cast": (True, False, FACTORIES),
    "complete": (True, False, FACTORIES),
    "harvester": (False, True, SCHEMA_LIKE),
}


def modes_for(factory):
    return [m for m, (_c, _d, fs) in MODES.items() if factory in fs]


def applicable(mode, factory, cid, spec):
    c, d, fs = MODES[mode]
    if factory not in fs:
        return False
    if c and not is_complete(cid, spec):
        return False
    if d and not declared_only(cid, spec):
        return False
    return True


_HARVESTERS = {}


def harvester_class(factory, cid):
    """A Harvester for the schema class, written the way plugin authors write them."""
    if (factory, cid) in _HARVESTERS:
        return _HARVESTERS[factory, cid]
    from metador_core.harvester import Harvester
    from metador_core.plugin.util import register_in_group
    from metador_core.plugins import harvesters, schemas

    scls = py_class(factory, cid)
    pname = scls.Plugin.name
    if pname not in schemas:
        register_in_group(schemas, scls, violently=True)

    class H(Harvester):
        class Plugin:
            name = f"vt.c14hv.{factory}.{cid.lower()}"
            version = (0, 1, 0)
            returns = schemas.PluginRef(name=pname, version=(0, 1, 0))

        class Args(Harvester.Args):
            # (a harvester without its own Args class cannot be harvested at all on the pinned
            #  tree: the base partial lacks __partial_fac__; not a C14 matter, so avoided here)
            note: Optional[str]

        _c14_spec = None

        def run(self):
            # fresh keyword arguments, plain data, as in metador_core.harvester.common
            return self.schema(**plain(self._c14_spec))

    H.__name__ = H.__qualname__ = f"C14{cid}Harvester"
    register_in_group(harvesters, H, violently=True)
    _HARVESTERS[factory, cid] = H
    return H


_HV_BUILDS = [0]


def _hygiene():
    """Bound memory/time of long runs: every `schemas[name]` access makes a new throw-away
    ("version unspecified"-marked) subclass plus a new partial class for it, which the partial
    factory then keeps forever.  These are never looked up again, so dropping them cannot change
    any result; if the internals look different, nothing is done.
    """
    _HV_BUILDS[0] += 1
    if _HV_BUILDS[0] % 256:
        return
    try:
        import gc

        import metador_core.schema.partial as mp
        from metador_core.plugin.metaclass import UndefVersion

        ours = set(_PY["schema"].values()) | {py_class("installed", c) for c in INSTALLED_CLASSES}
        for d in mp._partials.values():
            for k in [k for k in d if UndefVersion._is_marked(k) and UndefVersion._unwrap(k) in ours]:
                del d[k]
        # pure functools caches keyed by those throw-away classes
        import metador_core.schema.core as mcore

        for fn in (
            getattr(mcore.SchemaMagic._typehints, "fget", None),
            getattr(mcore.SchemaMagic._base_typehints, "fget", None),
            getattr(mcore, "make_schema_inspector", None),
        ):
            if hasattr(fn, "cache_clear"):
                fn.cache_clear()
        gc.collect()
    except Exception:  # noqa: BLE001
        pass


def make_harvester(factory, cid, spec):
    _hygiene()
    h = harvester_class(factory, cid)()
    h._c14_spec = spec
    return h


def build(factory, cid, mode, spec):
    """A fresh operand for `spec` obtained in construction mode `mode`."""
    P = partial_class(factory, cid)
    if mode == "kw":
        return P(**_objects(factory, spec, partial_class))
    if mode == "parse_obj":
        return P.parse_obj(plain(spec))
    if mode == "parse_json":
        return P.parse_raw(json.dumps(plain(spec, sets_as_lists=True)))
    if mode == "parse_yaml":
        return P.parse_raw(YAML_HEADER + to_yaml(plain(spec, sets_as_lists=True)))
    if mode == "to_partial_dict":
        return P.to_partial(plain(spec))
    if mode == "to_partial_dict_ii":
        return P.to_partial(plain(spec), ignore_invalid=True)
    if mode == "to_partial":
        return P.to_partial(complete_object(factory, cid, spec))
    if mode == "cast":
        return P.cast(complete_object(factory, cid, spec))
    if mode == "complete":
        return complete_object(factory, cid, spec)  # handed to merge()/merge_with() as it is
    if mode == "harvester":
        return make_harvester(factory, cid, spec).harvest()
    raise KeyError(mode)


# =====================================================================================
# 4. Observation: canonical, type-aware form of user-visible values
# =====================================================================================


def observe(obj):
    """Plain data of a model instance as the user sees it (`.dict()`), None = missing removed."""
    return _strip(obj.dict())


_CONSTANTS = ("@context", "@type")  # JSON-LD constant fields: dumped always, ignored on input


def _strip(v):
    if isinstance(v, dict):
        return {k: _strip(x) for k, x in v.items() if x is not None and k not in _CONSTANTS}
    if isinstance(v, (list, tuple)):
        return [_strip(x) for x in v]
    if isinstance(v, (set, frozenset)):
        return {_strip(x) for x in v}
    return v


def canon(v):
    """Canonical string of plain data; distinguishes 0 / False / 0.0 / "" / [] / set()."""
    if isinstance(v, dict):
        return "{" + ",".join(f"{k}={canon(v[k])}" for k in sorted(v)) + "}"
    if isinstance(v, list):
        return "[" + ",".join(canon(x) for x in v) + "]"
    if isinstance(v, (set, frozenset)):
        return "set(" + ",".join(sorted(canon(x) for x in v)) + ")"
    return f"{type(v).__name__}:{v!r}"


def snapshot(obj):
    """Deep snapshot of an operand: identity and content of every reachable value.

    Uses only public pydantic API (`__fields__`, attribute access, `.dict()`).
    """
    pl = observe(obj)
    return (canon(pl), _walk(obj), pl)


def _walk(v):
    if isinstance(v, BaseModel):
        names = list(v.__fields__) + sorted(k for k in v.__dict__ if k not in v.__fields__)
        return (id(v), type(v).__name__, tuple((n, _walk(getattr(v, n, None))) for n in names))
    if isinstance(v, list):
        return (id(v), "list", tuple(_walk(x) for x in v))
    if isinstance(v, (set, frozenset)):
        return (id(v), "set", tuple(sorted(repr(x) for x in v)))
    return repr(v)


def first_diff(exp, got, path=()):
    """First difference of two plain structures: (path, expected leaf, observed leaf) or None."""
    if isinstance(exp, dict) and isinstance(got, dict):
        for k in list(exp) + [k for k in got if k not in exp]:
            if k not in got:
                return (path + (k,), canon(exp[k]), "missing")
            if k not in exp:
                return (path + (k,), "missing", canon(got[k]))
            d = first_diff(exp[k], got[k], path + (k,))
            if d:
                return d
        return None
    if canon(exp) != canon(got):
        return (path, canon(exp), canon(got))
    return None


def field_kind(cid, path):
    """Kinds along a field path, e.g. ('m','a') in Nest -> 'M.Optional[int]'."""
    kinds = []
    cur = cid
    for name in path:
        if cur is None:
            break
        # look the field up in the class or (for the chain) in its subclasses
        cands = [cur] + [c for c in DESCR if cur in ancestors(c) and c != cur]
        hit = None
        for c in cands:
            for f, kind, _r, n in DESCR[c]:
                if f == name:
                    hit = (kind, n)
                    break
            if hit:
                break
        if not hit:
            kinds.append("?")
            break
        kinds.append(hit[0])
        cur = hit[1]
    return ".".join(kinds) if kinds else "(whole)"


# =====================================================================================
# 5. The reference merge (the documented rules on plain specs)
# =====================================================================================


class Conflict(Exception):
    pass


def ref_merge(a, b, overwrite, equal_is_conflict=True, nested_class="left", _path=()):
    """Documented merge of two specs (partial.py: module + `_check_type_mergeable` docstrings,
    `_update_field`, `merge_with`): missing is neutral; lists concatenate in order; sets unite;
    nested models of related classes merge recursively; everything else is a singular value: the
    new one overwrites if permitted, else the merge raises.

    `nested_class`: class of a recursively merged nested value - "left" (module docstring: "the
    merge will produce an instance of the left type") or "specific" (the subclass of the two).
    The class is not part of the observed value; it only decides what a *later* merge with an
    unrelated sibling class does, which the property leaves open - for classes on one inheritance
    chain both choices give the same values.
    """
    out = dict(a)
    for f, vb in b.items():
        if f not in out:
            out[f] = vb
            continue
        va = out[f]
        if isinstance(va, dict) and "L" in va:
            out[f] = {"L": va["L"] + vb["L"]}
        elif isinstance(va, dict) and "LM" in va:
            out[f] = {"LM": va["LM"] + vb["LM"]}
        elif isinstance(va, dict) and "S" in va:
            out[f] = {"S": sorted(set(va["S"]) | set(vb["S"]))}
        elif isinstance(va, dict) and "M" in va and related(va["M"], vb["M"]):
            cls = va["M"] if nested_class == "left" or vb["M"] in ancestors(va["M"]) else vb["M"]
            sub = ref_merge(va["f"], vb["f"], overwrite, equal_is_conflict, nested_class, _path + (f,))
            out[f] = {"M": cls, "f": sub}
        elif not equal_is_conflict and canon(_plain_v(va, False)) == canon(_plain_v(vb, False)):
            pass
        elif not overwrite:
            raise Conflict(_path + (f,))
        else:
            out[f] = vb
    return out
