"""Entry point: ./check <ID> [--tier quick|thorough] [--replay FILE]

Exit 0: property held on everything explored (known findings are printed as
`KNOWN-FINDING:` lines).  Exit 1: at least one `VIOLATION property=<id> replay=<path>`.
Exit 2: harness error (never a verdict).
"""
from __future__ import annotations

import mc.env as env  # noqa: F401  (must be first: numpy shim)

import argparse
import hashlib
import importlib
import json
import os
import signal
import sys
import time
import traceback

from mc import evidence as ev
from mc import findings as kf


def _jsonable(o):
    if isinstance(o, dict):
        return {str(k): _jsonable(v) for k, v in o.items()}
    if isinstance(o, (list, tuple, set, frozenset)):
        seq = list(o)
        if isinstance(o, (set, frozenset)):
            seq = sorted(seq, key=repr)
        return [_jsonable(v) for v in seq]
    if isinstance(o, (str, int, float, bool)) or o is None:
        return o
    if isinstance(o, bytes):
        return {"__bytes__": o.hex()}
    return repr(o)


def _replay_timeout(signum, frame):
    raise env.StepTimeout()


def write_replay(pid: str, viol: dict) -> str:
    body = _jsonable(viol)
    body["property"] = pid
    blob = json.dumps(body, sort_keys=True, indent=1)
    sha = hashlib.sha256(blob.encode()).hexdigest()[:12]
    d = os.path.join(env.VERIF_DIR, "replays", pid)
    os.makedirs(d, exist_ok=True)
    path = os.path.join(d, f"{sha}.json")
    with open(path, "w") as f:
        f.write(blob)
    return path


def main(argv=None) -> int:
    ap = argparse.ArgumentParser()
    ap.add_argument("pid")
    ap.add_argument("--tier", default=os.environ.get("VERIF_TIER", "quick"))
    ap.add_argument("--replay", default=None)
    ap.add_argument("--emit-pytest", action="store_true")
    args = ap.parse_args(argv)
    pid = args.pid.upper()
    tier = args.tier if args.tier in ("quick", "thorough") else "quick"
    seed = env.seed()
    mod = importlib.import_module(f"mc.props.{pid.lower()}")

    if args.replay:
        data = json.load(open(args.replay))
        if args.emit_pytest:
            print(
                "import json, mc.env\nfrom mc.props import %s as P\n\n"
                "def test_replay():\n    data = json.load(open(%r))\n"
                "    assert P.replay(data) is None\n" % (pid.lower(), os.path.abspath(args.replay))
            )
            return 0
        env.install_watchdog()
        if data.get("crash"):
            # recorded crash of the whole check inside library code: re-run the check
            try:
                res = mod.run(data.get("tier", tier), data.get("seed", seed))
                vs = res.get("violations") or []
                if data.get("context_dependent"):
                    want = json.dumps(_jsonable(data.get("sig")), sort_keys=True)
                    vs = [x for x in vs if json.dumps(_jsonable(x.get("sig")), sort_keys=True) == want]
                v = vs[0] if vs else None
            except Exception:
                v = {"sig": data.get("sig"), "what": traceback.format_exc()[-3000:]}
        else:
            v = mod.replay(data)
        if v is None:
            print(f"replay of {args.replay}: property {pid} holds on this history")
            return 0
        print(json.dumps(_jsonable(v), indent=1)[:4000])
        print(f"VIOLATION property={pid} replay={args.replay}")
        return 1

    t0 = time.time()
    try:
        res = mod.run(tier, seed)
    except Exception as exc:
        tb = traceback.format_exc()
        print(tb)
        infra = isinstance(exc, (MemoryError, OSError)) or "worker did not start" in tb or "worker failed to start" in tb
        # an exception while driving the code under test: on a tree where the property holds the drivers run through
        # (otherwise the check is broken anyway), so the changed behaviour of the library is the cause - also when the
        # exception surfaces in Python's own machinery (e.g. a comparison operator that now raises TypeError)
        if not infra and os.environ.get("VERIF_STRICT_HARNESS") != "1":
            # the code under test raised where the driver requires success (never happens on a tree where the
            # property holds, otherwise this check would be broken): report it as a violation, not as a harness error
            lib = [ln.strip() for ln in tb.splitlines() if "/metador_core/" in ln]
            v = {"sig": {"kind": "unexpected-exception-in-library", "where": lib[-1][:200] if lib else None}, "what": tb[-3000:], "crash": True, "tier": tier, "seed": seed}
            path = write_replay(pid, v)
            print(f"VIOLATION property={pid} replay={path}")
            return 1
        print(f"HARNESS-ERROR property={pid}")
        return 2
    wall = time.time() - t0

    viols = res.get("violations", [])
    # group by signature class; keep the first (shortest, explorer order) of each class
    classes = {}
    for v in viols:
        key = json.dumps(_jsonable(v.get("sig")), sort_keys=True)
        classes.setdefault(key, v)
    known = kf.load(pid)
    n_new = 0
    n_known = 0
    reported_known = set()
    lines = []
    pending_ctx = []
    # re-executing counterexamples is a courtesy (determinism check), bounded in total CPU time: what does not fit is
    # reported as found by the exploration
    replay_budget = float(os.environ.get("VERIF_REPLAY_BUDGET", "600"))
    replay_t0 = time.process_time()
    for key, v in classes.items():
        f = kf.match(known, v)
        if f is not None:
            n_known += 1
            if f["what"] not in reported_known:
                reported_known.add(f["what"])
                lines.append(f"KNOWN-FINDING: property={pid} {f['what']}")
            continue
        n_new += 1
        if n_new <= 25:
            # confirm determinism of the counterexample before reporting it
            if hasattr(mod, "replay") and os.environ.get("VERIF_NO_RECHECK") != "1":
                try:
                    env.install_watchdog()
                    # CPU-time limit on a timer of its own (the per-step watchdogs inside use ITIMER_REAL)
                    signal.signal(signal.SIGVTALRM, _replay_timeout)
                    left = replay_budget - (time.process_time() - replay_t0)
                    if left <= 5:
                        raise env.StepTimeout()
                    signal.setitimer(signal.ITIMER_VIRTUAL, min(float(os.environ.get("VERIF_REPLAY_TIMEOUT", "180")), left))
                    try:
                        again = mod.replay(json.loads(json.dumps(_jsonable(v))))
                    finally:
                        signal.setitimer(signal.ITIMER_VIRTUAL, 0)
                except env.StepTimeout:
                    again = "error: re-executing the counterexample did not fit the time budget"
                except Exception:
                    again = "error:" + traceback.format_exc()
                if again is None and any(w in key for w in ("nonterm", "hang", "timeout")):
                    # a step that exceeded its time budget once but terminates when run again: machine load, not a verdict
                    print(f"note: discarded a non-reproducible time-out report: {key[:200]}")
                    n_new -= 1
                    continue
                if again is None:
                    # not reproducible in isolation: either harness nondeterminism, or the failure depends on what the
                    # process did before (state leaking between cases).  Decide by running the whole check once more.
                    pending_ctx.append((key, v))
                    n_new -= 1
                    continue
            path = write_replay(pid, v)
            lines.append(f"VIOLATION property={pid} replay={path}")
            lines.append("  " + json.dumps(_jsonable({k: v[k] for k in v if k in ("sig", "history", "what")}))[:1500])
    if pending_ctx:
        try:
            res2 = mod.run(tier, seed)
            sigs2 = {json.dumps(_jsonable(x.get("sig")), sort_keys=True) for x in res2.get("violations", [])}
        except Exception:
            sigs2 = set()
        for key, v in pending_ctx:
            if key not in sigs2:
                print(f"HARNESS-NONDETERMINISM property={pid} a violation reproduced neither on replay nor in a second complete run:")
                print(json.dumps(_jsonable(v), indent=1)[:3000])
                return 2
            v = dict(v)
            v["context_dependent"] = True
            v["crash"] = True  # replay = run the whole check again and look for this signature
            v["tier"], v["seed"] = tier, seed
            n_new += 1
            path = write_replay(pid, v)
            lines.append(f"VIOLATION property={pid} replay={path}")
            lines.append("  (fails only in the context of the whole run - state leaking between cases) " + json.dumps(_jsonable({k: v[k] for k in v if k in ("sig", "what")}))[:1200])
    cov = res["coverage"]
    ev.write(
        pid,
        tier=tier,
        seed=seed,
        level=res["level"],
        coverage=cov,
        assumptions=res.get("assumptions", []),
        wall_s=round(wall, 2),
        violations=n_new,
        extra={"known_findings_matched": n_known},
    )
    summary = {k: v for k, v in cov.items() if k not in ("samples", "rule")}
    print(f"[{pid}] tier={tier} seed={seed} wall={wall:.1f}s coverage={json.dumps(summary)}")
    for ln in lines:
        print(ln)
    if n_new:
        return 1
    print(f"OK property={pid}")
    return 0


if __name__ == "__main__":
    sys.exit(main())
