"""Register the harness schema family the way an installed package would be registered:
real EntryPoint objects bound to a distribution, plus package metadata in the plugin system."""
from __future__ import annotations

import mc.env  # noqa: F401

PKG_NAME = "vt-schemas"
PKG_VERSION = (1, 2, 3)


class _FakeDist:
    """Minimal stand-in for importlib_metadata.Distribution (what the plugin system consults)."""

    name = PKG_NAME
    version = ".".join(map(str, PKG_VERSION))

    def __init__(self):
        self._eps = []

    @property
    def entry_points(self):
        from importlib_metadata import EntryPoints

        return EntryPoints(self._eps)

    @property
    def metadata(self):
        import email.message

        m = email.message.Message()
        m["Name"] = self.name
        m["Version"] = self.version
        return m


_done = {}


def register(envs=("old",)):
    """Register the vt.* schemas of the given environments ('old', 'new'). Idempotent per env."""
    from importlib_metadata import EntryPoint

    from metador_core.plugin.types import to_ep_name
    from metador_core.plugins import schemas
    from metador_core.schema.plugins import PluginPkgMeta, PluginRef

    from mc import vtschemas

    dist = _done.setdefault("dist", _FakeDist())
    for e in envs:
        if e in _done:
            continue
        _done[e] = True
        for cls in vtschemas.CLASSES[e]:
            epn = to_ep_name(cls.Plugin.name, cls.Plugin.version)
            ep = EntryPoint(epn, f"mc.vtschemas:{cls.__name__}", "metador_schema")._for(dist)
            dist._eps.append(ep)
            schemas._add_ep(epn, ep)
    refs = []
    for ep in dist._eps:
        from metador_core.plugin.types import EPName, from_ep_name

        n, v = from_ep_name(EPName(ep.name))
        refs.append(PluginRef(group="schema", name=n, version=v))
    schemas._PKG_META[PKG_NAME] = PluginPkgMeta(name=PKG_NAME, version=PKG_VERSION, plugins={"schema": refs})
    return schemas
