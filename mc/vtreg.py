"""Register the harness schema family the way an installed package would be registered:
real EntryPoint objects bound to a distribution, plus package metadata in the plugin system.

Each environment ('old' = 1.0.0 family, 'new' = 1.1.0 family, 'v2') is one release of the package
'vt-schemas' (version 1.0.0 / 1.1.0 / 2.0.0): a package release provides one version of each schema.
"""
from __future__ import annotations

import mc.env  # noqa: F401

PKG_NAME = "vt-schemas"
PKG_VERSIONS = {"old": (1, 0, 0), "new": (1, 1, 0), "v2": (2, 0, 0)}


class _FakeDist:
    """Minimal stand-in for importlib_metadata.Distribution (what the plugin system consults)."""

    def __init__(self, name, version):
        self.name = name
        self.version = ".".join(map(str, version))
        self._eps = []

    @property
    def entry_points(self):
        from importlib_metadata import EntryPoints

        return EntryPoints(self._eps)

    @property
    def metadata(self):
        import email.message

        m = email.message.Message()
        m["Name"] = self.name
        m["Version"] = self.version
        return m


_done = {}


def pkg_name(env_name):
    # distinct distribution names only when several environments are registered in one process
    return PKG_NAME if len(_done) <= 1 else f"{PKG_NAME}-{env_name}"


def register(envs=("old",)):
    """Register the vt.* schemas of the given environments. Idempotent per env."""
    from importlib_metadata import EntryPoint

    from metador_core.plugin.types import EPName, from_ep_name, to_ep_name
    from metador_core.plugins import schemas
    from metador_core.schema.plugins import PluginPkgMeta, PluginRef

    from mc import vtschemas

    for e in envs:
        if e in _done:
            continue
        name = PKG_NAME if not _done else f"{PKG_NAME}-{e}"
        dist = _FakeDist(name, PKG_VERSIONS[e])
        _done[e] = dist
        for cls in vtschemas.CLASSES[e]:
            epn = to_ep_name(cls.Plugin.name, cls.Plugin.version)
            if any(x.name == epn for d in _done.values() for x in d._eps):
                continue
            ep = EntryPoint(epn, f"mc.vtschemas:{cls.__name__}", "metador_schema")._for(dist)
            dist._eps.append(ep)
            schemas._add_ep(epn, ep)
        refs = []
        for ep in dist._eps:
            n, v = from_ep_name(EPName(ep.name))
            refs.append(PluginRef(group="schema", name=n, version=v))
        schemas._PKG_META[name] = PluginPkgMeta(name=name, version=PKG_VERSIONS[e], plugins={"schema": refs})
    return schemas
