"""Finite grammar of schema field types, boundary-value corpora and generated schema classes (shared by C12 and C13).

Everything here is *enumeration*: a type expression is a string of the grammar

    T ::= atom | Optional[T] | List[T] | Set[T] | Union[T,T(,T)]

`hint(T)` is the real typing object, `corpus(T)` the complete, ordered list of boundary values of T (as JSON-able
*value specs*, see `materialize`), `make_class` builds a fresh MetadataSchema subclass with a unique name.
The seed only renames (field names, which letters / unicode string / host stand for the abstract symbols).

Depth as in DESIGN §3-C12: atoms have depth 1, every constructor adds one.
"""
from __future__ import annotations

import mc.env as env  # noqa: F401  (numpy shim first)

import datetime
import enum
import itertools
import typing
from typing import Any, Dict, List, Literal, Optional, Set, Tuple, Union

from pydantic import AnyHttpUrl, Extra, NonNegativeInt, PositiveFloat

from metador_core.schema import MetadataSchema
from metador_core.schema import types as mt
from metador_core.schema.decorators import add_const_fields, make_mandatory, override  # noqa: F401
from metador_core.schema.ld import LDIdRef, ld

SchemaMeta = type(MetadataSchema)
OMIT = {"$py": "omit"}

# --------------------------------------------------------------------------- naming (seed = renaming only)

_FIELD_POOL = ["f", "val", "g_1", "fld", "x"]
_FIELD2_POOL = ["e", "aux", "h_2", "oth", "y"]
_LETTERS = ["a", "k", "zq", "m", "b"]
_UNI_POOL = ["ä€\U0001f600", "Ω中ß\U0001d11e", "éЖ\U0001f40d", "ñก☃\U00020000", "üא♥\U0001f680"]
_HOST_POOL = ["a.b", "example.com", "h.io", "x-y.org", "t.de"]


class Names:
    def __init__(self, seed: int):
        s = int(seed)
        self.seed = s
        self.f = _FIELD_POOL[s % len(_FIELD_POOL)]
        self.f2 = _FIELD2_POOL[s % len(_FIELD2_POOL)]
        self.a = _LETTERS[s % len(_LETTERS)]
        self.b = _LETTERS[(s + 1) % len(_LETTERS)]
        self.c = _LETTERS[(s + 2) % len(_LETTERS)]
        self.uni = _UNI_POOL[s % len(_UNI_POOL)]
        self.host = _HOST_POOL[s % len(_HOST_POOL)]


# --------------------------------------------------------------------------- the environment of one process

ATOMS = [
    "Bool", "Int", "Float", "Str",            # strict primitives (metador_core.schema.types)
    "PBool", "PInt", "PFloat", "PStr",        # plain bool/int/float/str ("basic types" of the PGSchema guidelines)
    "NonEmptyStr", "MimeTypeStr", "QualHashsumStr",  # phantom types
    "NonNegInt", "PosFloat",                  # pydantic constrained types
    "Duration", "PintUnit", "PintQuantity", "SemVerTuple",
    "Lit", "LitA", "Enum", "Date", "Url",
    "Nested", "NestedSub", "NestedLD", "LDIdRef",
]  # fmt: skip

DATE_ATOMS = {"Date"}


class Env:
    """Per-process objects the grammar refers to (built once; classes for the `Nested*` atoms, the Enum)."""

    _count = 0

    def __init__(self, seed: int):
        self.n = n = Names(seed)
        Env._count += 1
        k = Env._count
        self.En = enum.Enum(f"En{k}", {"x": n.a, "y": n.b})
        self.Lit = Literal[n.a, n.b, 1]  # type: ignore
        self.LitA = Literal[n.a]  # type: ignore
        self.Nested = SchemaMeta(
            f"Nested{k}",
            (MetadataSchema,),
            {
                "__module__": __name__,
                "__annotations__": {"x": mt.Int, "d": Optional[mt.Duration], "s": Optional[mt.NonEmptyStr]},
            },
        )
        self.NestedSub = SchemaMeta(
            f"NestedSub{k}", (self.Nested,), {"__module__": __name__, "__annotations__": {"y": Optional[mt.Bool]}}
        )
        self.nld_consts = {"@context": f"https://ctx.{n.host}/n", "@type": "NLD" + n.a}
        self.NestedLD = ld(context=self.nld_consts["@context"], type=self.nld_consts["@type"])(
            SchemaMeta(f"NestedLD{k}", (MetadataSchema,), {"__module__": __name__, "__annotations__": {"n": mt.NonEmptyStr}})
        )
        self.atom_types = {
            "Bool": mt.Bool, "Int": mt.Int, "Float": mt.Float, "Str": mt.Str,
            "PBool": bool, "PInt": int, "PFloat": float, "PStr": str,
            "NonEmptyStr": mt.NonEmptyStr, "MimeTypeStr": mt.MimeTypeStr, "QualHashsumStr": mt.QualHashsumStr,
            "NonNegInt": NonNegativeInt, "PosFloat": PositiveFloat,
            "Duration": mt.Duration, "PintUnit": mt.PintUnit, "PintQuantity": mt.PintQuantity,
            "SemVerTuple": mt.SemVerTuple,
            "Lit": self.Lit, "LitA": self.LitA, "Enum": self.En, "Date": datetime.date, "Url": AnyHttpUrl,
            "Nested": self.Nested, "NestedSub": self.NestedSub, "NestedLD": self.NestedLD, "LDIdRef": LDIdRef,
        }  # fmt: skip
        self.model_classes = {
            "Nested": self.Nested,
            "NestedSub": self.NestedSub,
            "NestedLD": self.NestedLD,
            "LDIdRef": LDIdRef,
        }
        self._cls_counter = 0

    def fresh_name(self, prefix="G"):
        self._cls_counter += 1
        return f"{prefix}{Env._count}_{self._cls_counter}"


# --------------------------------------------------------------------------- type expressions


def parse_texpr(s: str):
    """'Optional[List[Int]]' -> ('Optional', ('List', ('atom','Int')))"""
    s = s.strip()
    i = s.find("[")
    if i < 0:
        if s not in ATOMS:
            raise ValueError(f"unknown atom {s!r}")
        return ("atom", s)
    head, body = s[:i], s[i + 1 : -1]
    if not s.endswith("]"):
        raise ValueError(s)
    parts, depth, cur = [], 0, ""
    for ch in body:
        if ch == "[":
            depth += 1
        elif ch == "]":
            depth -= 1
        if ch == "," and depth == 0:
            parts.append(cur)
            cur = ""
        else:
            cur += ch
    parts.append(cur)
    args = tuple(parse_texpr(p) for p in parts)
    if head in ("Optional", "List", "Set"):
        if len(args) != 1:
            raise ValueError(s)
        return (head, args[0])
    if head == "Union":
        if len(args) < 2:
            raise ValueError(s)
        return ("Union",) + args
    raise ValueError(f"unknown constructor {head!r}")


def texpr_str(t) -> str:
    if t[0] == "atom":
        return t[1]
    return f"{t[0]}[{','.join(texpr_str(a) for a in t[1:])}]"


def depth(t) -> int:
    if t[0] == "atom":
        return 1
    return 1 + max(depth(a) for a in t[1:])


def atoms_of(t):
    if t[0] == "atom":
        return {t[1]}
    out = set()
    for a in t[1:]:
        out |= atoms_of(a)
    return out


def _clear_typing_caches():
    """typing memoises `X[args]` on args that compare EQUAL, and Union[A,B] == Union[B,A]: after List[Union[B,A]] was
    built once, List[Union[A,B]] returns the cached List[Union[B,A]]. What a generated class means must not depend
    on what the process built before, so the alias caches are dropped before every hint construction."""
    for f in getattr(typing, "_cleanups", ()):
        try:
            f()
        except Exception:
            pass


def _hint(t, e: Env):
    k = t[0]
    if k == "atom":
        return e.atom_types[t[1]]
    if k == "Optional":
        return Optional[_hint(t[1], e)]
    if k == "List":
        return List[_hint(t[1], e)]
    if k == "Set":
        return Set[_hint(t[1], e)]
    if k == "Union":
        return Union[tuple(_hint(a, e) for a in t[1:])]  # type: ignore
    raise ValueError(k)


def _same_shape(t, h, e: Env) -> bool:
    """does the typing object h spell exactly the expression t (member order included)?"""
    k = t[0]
    if k == "atom":
        return h is e.atom_types[t[1]] or h == e.atom_types[t[1]] and typing.get_args(h) == typing.get_args(e.atom_types[t[1]])
    args = typing.get_args(h)
    origin = typing.get_origin(h)
    if k == "Optional":
        if origin is not Union or args[-1] is not type(None):
            return False
        inner = t[1]
        if inner[0] == "Union":  # Optional[Union[a,b]] flattens to Union[a,b,None]
            return len(args) - 1 == len(inner) - 1 and all(_same_shape(x, y, e) for x, y in zip(inner[1:], args[:-1]))
        return len(args) == 2 and _same_shape(inner, args[0], e)
    if k == "List":
        return origin is list and len(args) == 1 and _same_shape(t[1], args[0], e)
    if k == "Set":
        return origin is set and len(args) == 1 and _same_shape(t[1], args[0], e)
    if k == "Union":
        return origin is Union and len(args) == len(t) - 1 and all(_same_shape(x, y, e) for x, y in zip(t[1:], args))
    return False


def hint(t, e: Env):
    """the typing object for a type expression - independent of anything built earlier in this process"""
    _clear_typing_caches()
    h = _hint(t, e)
    if not _same_shape(t, h, e):
        raise RuntimeError(f"harness: typing built {h!r} for {texpr_str(t)}")
    return h


def enumerate_types(max_depth: int, atoms=None, union_atoms=None, triples_atoms=()) -> List[str]:
    """All type expressions of the grammar up to `max_depth` (as strings, deterministic order).

    depth 1: atoms
    depth 2: Optional[a] List[a] Set[a] for every atom; Union[a,b] for every ORDERED pair of distinct union atoms
             (order matters: pydantic tries union members left to right)
    depth 3: the wrappers the PGSchema guidelines / check_types allow around depth-2 types:
             Optional[List[a]] Optional[Set[a]] List[List[a]] List[Set[a]] Set[List[a]] Set[Set[a]]
             List[Optional[a]] Set[Optional[a]] (these two are refused by check_types; kept so that the refusal
             is observed) Optional[Union[a,b]] List[Union[a,b]] Set[Union[a,b]] and Union[a,b,c] over `triples_atoms`.
    """
    atoms = list(atoms if atoms is not None else ATOMS)
    ua = list(union_atoms if union_atoms is not None else atoms)
    out = list(atoms)
    if max_depth >= 2:
        for c in ("Optional", "List", "Set"):
            out += [f"{c}[{a}]" for a in atoms]
        unions = [f"Union[{a},{b}]" for a in ua for b in ua if a != b]
        out += unions
    if max_depth >= 3:
        for outer, inner in (
            ("Optional", "List"), ("Optional", "Set"), ("List", "List"), ("List", "Set"), ("Set", "List"), ("Set", "Set"),
            ("List", "Optional"), ("Set", "Optional"),
        ):  # fmt: skip
            out += [f"{outer}[{inner}[{a}]]" for a in atoms]
        for c in ("Optional", "List", "Set"):
            out += [f"{c}[{u}]" for u in unions]
        ta = list(triples_atoms)
        out += [f"Union[{a},{b},{c}]" for a in ta for b in ta for c in ta if len({a, b, c}) == 3]
    return out


# --------------------------------------------------------------------------- value specs


def materialize(spec, e: Env):
    """Build a FRESH python value from a JSON-able value spec (never shares structure between calls)."""
    if isinstance(spec, dict):
        tag = spec.get("$py")
        if tag is None:
            return {k: materialize(v, e) for k, v in spec.items()}
        if tag == "omit":
            raise ValueError("OMIT has no value")
        if tag == "Duration":
            return mt.Duration(**{k: v for k, v in spec.items() if k != "$py"})
        if tag == "timedelta":
            return datetime.timedelta(**{k: v for k, v in spec.items() if k != "$py"})
        if tag == "PintUnit":
            return mt.PintUnit(spec["s"])
        if tag == "PintQuantity":
            return mt.PintQuantity(spec["s"])
        if tag == "set":
            return set(materialize(v, e) for v in spec["items"])
        if tag == "tuple":
            return tuple(materialize(v, e) for v in spec["items"])
        if tag == "date":
            return datetime.date.fromisoformat(spec["iso"])
        if tag == "datetime":
            return datetime.datetime.fromisoformat(spec["iso"])
        if tag == "time":
            return datetime.time.fromisoformat(spec["iso"])
        if tag == "enum":
            return e.En[spec["name"]]
        if tag == "float":
            return float(spec["s"])
        if tag == "int":
            return int(spec["s"])
        if tag == "model":
            cls = e.model_classes[spec["cls"]]
            return cls(**{k: materialize(v, e) for k, v in spec["kw"].items()})
        raise ValueError(f"unknown value tag {tag!r}")
    if isinstance(spec, list):
        return [materialize(v, e) for v in spec]
    return spec


def is_omit(spec) -> bool:
    return isinstance(spec, dict) and spec.get("$py") == "omit"


def _dedupe(vals):
    seen, out = set(), []
    for v in vals:
        k = _key(v)
        if k not in seen:
            seen.add(k)
            out.append(v)
    return out


def _key(v):
    # type-aware key: 1, 1.0 and True are different corpus entries
    if isinstance(v, dict):
        return ("d",) + tuple((k, _key(x)) for k, x in sorted(v.items()))
    if isinstance(v, list):
        return ("l",) + tuple(_key(x) for x in v)
    return (type(v).__name__, repr(v))


BIG = 10**400  # an int beyond the range of a double

# strings that matter to JSON / YAML scalar resolution and to whitespace handling
def _strings(n: Names):
    return [
        n.a, f" {n.a} ", n.uni, f"{n.a}\n{n.b}", "", " ", "\t", "\n" + n.a + " ",
        "null", "true", "no", "1", "1.5", "1e3", "0x10", "2020-01-01", "12:30:00", "~", "- " + n.a, f"{n.a}: {n.b}", "# " + n.a,
        "'", '"', "{}", "[]", f"{n.a}\\{n.b}", "\x00", "\x85", f"{n.a}\x85{n.b}", " ", "@" + n.a, "!" + n.a, "&" + n.a, "*" + n.a, "|", ">", "%" + n.a, "? " + n.a,
        "=", "<<", ".inf", ".nan", "-", "---", "...", n.a * 200,
    ]  # fmt: skip


def atom_corpus(name: str, e: Env) -> list:
    """Boundary values of an atom; the first TWO entries are plain valid ("nominal") values."""
    n = e.n
    a, b, c = n.a, n.b, n.c
    if name in ("Bool", "PBool"):
        return [True, False, 0, 1, "true", "yes", 2, 1.0]
    if name in ("Int", "PInt"):
        return [0, -1, 1, 2**53, 2**53 + 1, -(2**63), 2**64, BIG, True, 1.0, 1.5, "1", ""]
    if name in ("Float", "PFloat"):
        return [1.5, 0.0, -1.5, 1e-9, 2.0**53, 1e300, 5e-324, 0.1, -0.0, 1e16, 1e22, 123456789.123456789, 1, BIG, True, "1.5",
                {"$py": "float", "s": "inf"}, {"$py": "float", "s": "nan"}]  # fmt: skip
    if name in ("Str", "PStr"):
        return _strings(n) + [1, 1.5, True]
    if name == "NonEmptyStr":
        return _strings(n) + [1]
    if name == "MimeTypeStr":
        return ["text/plain", "application/json;q=0.9;v=abc", f"{a}/{b}", f"{a}/{b}\n", f"{n.uni}/x", "text", f"{a} /{b}", f"{a}/{b}/{c}", f"{a}/{b};", "", 1]  # fmt: skip
    if name == "QualHashsumStr":
        return ["sha256:aebf", "sha512:AEBF09", "sha256:0", "md5:00", "sha256:", "wrong:ab", "sha256:xyz", "aebf", "sha256:ab\n", "", 1]  # fmt: skip
    if name == "NonNegInt":
        return [0, 1, 2**53, 2**64, -1, "1", 1.0, 1.5, True, BIG]
    if name == "PosFloat":
        return [1.5, 1e-9, 5e-324, 1e300, 1, 0.0, -1.5, "1.5", {"$py": "float", "s": "inf"}]
    if name == "Duration":
        return ["PT1S", "P1DT1S", "PT0S", "PT1H", "PT0.5S", "PT1.000001S", "PT0.0000001S", "-P1D", "P1W", "PT36H", "P1Y", "P1M",
                "P1Y2M3DT4H5M6.5S", "P0D", "PT1M1S", "P10000000D", "", "PT", "P", "1", 1, " PT1S",
                {"$py": "Duration", "seconds": 1}, {"$py": "Duration", "months": 1}, {"$py": "Duration", "days": 1, "seconds": 0.5},
                {"$py": "timedelta", "seconds": 1}]  # fmt: skip
    if name == "PintUnit":
        return ["meter", "km/s", "m", "kilogram / second ** 2", "dimensionless", "1", "degC", "m^2", "1/s", "µm", "percent", "meter ",
                "", "invalid", "2", 1, {"$py": "PintUnit", "s": "meter"}, {"$py": "PintUnit", "s": "km/s"}]  # fmt: skip
    if name == "PintQuantity":
        return ["5 meter", "1.5 km/s", "5", "0 m", "-1 s", "1e-9 m", "9007199254740993 meter", "1/3 m", "5 degC", "inf m", "1e300 m", "5 m ",
                "0.1 m", "", "123 bla", "meter", 23.12, 5, {"$py": "PintQuantity", "s": "5 meter"}, {"$py": "PintQuantity", "s": "0 m"}]  # fmt: skip
    if name == "SemVerTuple":
        return [[0, 1, 0], [1, 2, 3], [0, 0, 0], [2**53, 0, 0], {"$py": "tuple", "items": [0, 1, 0]}, [1, 2], [1, 2, 3, 4], [-1, 0, 0],
                ["1", 2, 3], [1.0, 2, 3], [True, 0, 0], "1.2.3", []]  # fmt: skip
    if name == "Lit":
        return [a, b, 1, c, True, 2, "1", 1.0]
    if name == "LitA":
        return [a, b, ""]
    if name == "Enum":
        return [a, b, c, {"$py": "enum", "name": "x"}, {"$py": "enum", "name": "y"}, 1, "x"]
    if name == "Date":
        return ["2020-01-01", "1999-12-31", "0001-01-01", "9999-12-31", "2020-02-29", "2021-02-29", "2020-1-1",
                {"$py": "date", "iso": "2020-01-01"}, {"$py": "datetime", "iso": "2020-01-01T12:30:00"}, 0, 1500000000, 1.5e9,
                "2020-01-01T00:00:00", "2020-01-01T12:30:00", a, ""]  # fmt: skip
    if name == "Url":
        h = n.host
        return [f"http://{h}", f"https://{h}/p?q=1#f", "http://a", f"http://{h}:80/", "http://ä.de", f"HTTP://{h.upper()}",
                f"http://{h}/{n.uni}", f"http://{h}/ x", f" http://{h} ", f"http://u:p@{h}/", "http://[::1]/", "http://1.2.3.4",
                f"ftp://{h}", a, "", 1]  # fmt: skip
    if name == "Nested":
        return [{"x": 1}, {"x": 0, "d": "PT1S", "s": a}, {"x": 1, "zz": [1, a]}, {"x": 1, "d": None}, {"x": 2**53, "s": f" {a} "},
                {"$py": "model", "cls": "Nested", "kw": {"x": 1}}, {"$py": "model", "cls": "Nested", "kw": {"x": 1, "d": "P1D"}},
                {}, {"x": a}, {"x": 1, "d": "bad"}, 1, a, []]  # fmt: skip
    if name == "NestedSub":
        return [{"x": 1, "y": True}, {"x": 1}, {"x": 0, "y": False, "s": a}, {"$py": "model", "cls": "NestedSub", "kw": {"x": 1, "y": False}},
                {}, {"x": 1, "y": 1}]  # fmt: skip
    if name == "NestedLD":
        return [{"n": a}, {"n": b, "@type": "other"}, {"n": a, "@context": None}, {"$py": "model", "cls": "NestedLD", "kw": {"n": a}}, {}, {"n": ""}]  # fmt: skip
    if name == "LDIdRef":
        return [{"@id": a}, {"@id": n.uni}, {"id_": a}, {"@id": f" {a} "}, {"$py": "model", "cls": "LDIdRef", "kw": {"id_": a}},
                {"@id": ""}, {"@id": a, "zz": 1}, {"@id": a, "@type": "T"}, {}, a]  # fmt: skip
    raise ValueError(name)


def corpus(t, e: Env) -> list:
    """Complete ordered corpus of a type expression (value specs). No OMIT/None here unless the type has them."""
    k = t[0]
    if k == "atom":
        return _dedupe(atom_corpus(t[1], e))
    if k == "Optional":
        return _dedupe(corpus(t[1], e) + [None])
    if k == "Union":
        return _dedupe([v for a in t[1:] for v in corpus(a, e)])
    if k in ("List", "Set"):
        inner = corpus(t[1], e)
        v0 = inner[0]
        v1 = inner[1] if len(inner) > 1 else inner[0]
        out = [[]] + [[v] for v in inner] + [[v0, v1], [v0, v0], [v1, v0, v1]]
        if k == "Set":
            out += [{"$py": "set", "items": []}]
            if _hashable_spec(v0) and _hashable_spec(v1):
                out += [{"$py": "set", "items": [v0]}, {"$py": "set", "items": [v0, v1]}]
        else:
            out += [{"$py": "tuple", "items": [v0, v1]}]
        out += [None, v0] if not isinstance(v0, list) else [None]
        return _dedupe(out)
    raise ValueError(k)


def _hashable_spec(v) -> bool:
    if isinstance(v, list):
        return False
    if isinstance(v, dict):
        return v.get("$py") in ("Duration", "PintUnit", "PintQuantity", "date", "enum", "float", "int", "tuple")
    return True


def field_corpus(t, e: Env) -> list:
    """Corpus of a *field* of type t: the type's corpus plus explicit None and omission."""
    return _dedupe(corpus(t, e) + [None, OMIT])


# --------------------------------------------------------------------------- generated classes

CONST_VARIANTS = ("none", "ld", "acf", "ldx")


def const_decl(variant: str, e: Env) -> Dict[str, Any]:
    n = e.n
    if variant == "none":
        return {}
    if variant == "ld":
        return {"@context": f"https://ctx.{n.host}/v1", "@type": "T" + n.a}
    if variant == "acf":
        return {"cstr": "v" + n.a, "cnum": 0, "clist": [n.b, 1], "cflag": False}
    if variant == "ldx":  # JSON-LD constants through the decorator, falsy values included
        return {"@context": f"https://ctx.{n.host}/v1", "@type": "T" + n.a, "@version": 0, "@flag": False, "@note": "", "@list": []}
    raise ValueError(variant)


def apply_consts(cls, variant: str, e: Env):
    decl = const_decl(variant, e)
    if variant == "ld":
        return ld(context=decl["@context"], type=decl["@type"])(cls)
    if variant == "acf":
        return add_const_fields({k: (list(v) if isinstance(v, list) else v) for k, v in decl.items()})(cls)
    if variant == "ldx":
        return ld(**{k[1:]: (list(v) if isinstance(v, list) else v) for k, v in decl.items()})(cls)
    return cls


def make_class(e: Env, fields: Dict[str, Any], *, base=None, consts="none", defaults=None, extra=None, prefix="G"):
    """Fresh MetadataSchema subclass. fields: name -> typing hint. defaults: name -> python value."""
    ns: Dict[str, Any] = {"__module__": __name__, "__annotations__": dict(fields)}
    for k, v in (defaults or {}).items():
        ns[k] = v
    if extra is not None:
        ns["Config"] = type("Config", (), {"extra": {"allow": Extra.allow, "ignore": Extra.ignore, "forbid": Extra.forbid}[extra]})
    cls = SchemaMeta(e.fresh_name(prefix), (base or MetadataSchema,), ns)
    return apply_consts(cls, consts, e)


def build_kwargs(assign: Dict[str, Any], e: Env) -> Dict[str, Any]:
    """assign: field name -> value spec (OMIT = leave out). Fresh values on every call."""
    return {k: materialize(v, e) for k, v in assign.items() if not is_omit(v)}


# --------------------------------------------------------------------------- helpers on instances


def has_sets(v) -> bool:
    from pydantic import BaseModel

    if isinstance(v, (set, frozenset)):
        return True
    if isinstance(v, BaseModel):
        return any(has_sets(x) for x in v.__dict__.values())
    if isinstance(v, dict):
        return any(has_sets(x) for x in v.values())
    if isinstance(v, (list, tuple)):
        return any(has_sets(x) for x in v)
    return False


def short(v, n=300):
    r = repr(v)
    return r if len(r) <= n else r[: n - 3] + "..."


def chunks(seq, k):
    it = iter(seq)
    while True:
        c = list(itertools.islice(it, k))
        if not c:
            return
        yield c
