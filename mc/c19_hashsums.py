"""C19 worker module: directory-tree grammar, canonical content descriptions, single edits,
on-disk builder (two creation orders / mtimes) and the judge for dir_hashsums.

Abstract tree = nested dict  name -> leaf | {...}    (absent = key missing), leaves are tuples
  ("f", cid)            regular file; cid = "<size>" (base payload of that size) or "<size>^<pos>"
                        (base payload with the byte at <pos> flipped)
  ("l", style, loc)     symlink that points INSIDE the directory at location `loc` (tuple of segments
                        relative to the base, () = the base itself); style = how the target is spelled:
                        "rel" plain relative, "dd" relative with a ../ detour, "abs" absolute
  ("o", kind)           symlink that leads OUTSIDE the base: "file-rel", "dir-rel", "up" (= ..),
                        "file-abs", "dangling-rel"

The canonical content description (what the property calls "the same names with the same file
contents, the same in-directory symlink targets and the same (possibly empty) subdirectories")
forgets the spelling of a link target and keeps the location it designates.
"""
from __future__ import annotations

import mc.env as env  # noqa: F401  (numpy shim first)

import hashlib
import io
import itertools
import json
import os
from pathlib import Path

# ------------------------------------------------------------------ spelling (VERIF_SEED renames only)

NAME_POOLS = [
    ("a", "b", "c"),
    ("ab", "a", "a.b"),
    ("x.y", "x", "~"),
    ("foo", "fo", "foo2"),
    ("b", "a", "0"),
    ("B", "a", "_"),
]


def spelling(seed: int) -> dict:
    n0, n1, fresh = NAME_POOLS[seed % len(NAME_POOLS)]
    return {
        "names": [n0, n1],
        "fresh": fresh,
        "dangling": ["t1", "t2"] if seed % 2 == 0 else ["zz", "z.z"],
        "base": ["base", "d.ir", "data set"][seed % 3],
        "ext_file": "ext_f",
        "ext_dir": "ext_d",
        "salt": seed % 251,
    }


_PAYLOAD = {}


def payload(cid: str, salt: int) -> bytes:
    key = (cid, salt)
    b = _PAYLOAD.get(key)
    if b is None:
        size, _, pos = cid.partition("^")
        size = int(size)
        raw = bytearray((salt + 31 * i + 7 * size + 1) % 256 for i in range(size))
        if pos != "":
            raw[int(pos)] ^= 0x01
        b = _PAYLOAD[key] = bytes(raw)
    return b


# ------------------------------------------------------------------ trees: helpers


def norm(t):
    """JSON round-tripped tree (lists) -> tree with tuple leaves."""
    out = {}
    for k, v in t.items():
        if isinstance(v, dict):
            out[k] = norm(v)
        else:
            v = list(v)
            if v[0] == "l":
                out[k] = ("l", v[1], tuple(v[2]))
            else:
                out[k] = tuple(v)
    return out


def copy_tree(t):
    return {k: (copy_tree(v) if isinstance(v, dict) else v) for k, v in t.items()}


def entries(t, pre=()):
    """All (path, value) of a tree, parents before children."""
    for k in sorted(t):
        v = t[k]
        yield pre + (k,), v
        if isinstance(v, dict):
            yield from entries(v, pre + (k,))


def tree_size(t) -> int:
    return sum(1 for _ in entries(t))


def lookup(t, path):
    cur = t
    for seg in path:
        if not isinstance(cur, dict) or seg not in cur:
            return None
        cur = cur[seg]
    return cur


def has_outside(t) -> bool:
    return any(not isinstance(v, dict) and v[0] == "o" for _, v in entries(t))


def outside_kinds(t) -> list:
    return sorted({v[1] for _, v in entries(t) if not isinstance(v, dict) and v[0] == "o"})


def chain_free(t) -> bool:
    """No inside link designates (or passes through) a location that is itself a symlink."""
    for _, v in entries(t):
        if not isinstance(v, dict) and v[0] == "l":
            loc = v[2]
            for i in range(1, len(loc) + 1):
                e = lookup(t, loc[:i])
                if e is not None and not isinstance(e, dict) and e[0] in ("l", "o"):
                    return False
    return True


def base_links(t) -> bool:
    return any(not isinstance(v, dict) and v[0] == "l" and v[2] == () for _, v in entries(t))


def leaf_kind(t, v) -> str:
    if v is None:
        return "absent"
    if isinstance(v, dict):
        return "dir"
    if v[0] == "f":
        return "file"
    if v[0] == "o":
        return "outside-link"
    if v[2] == ():
        return "link->base"
    e = lookup(t, v[2])
    if e is None:
        return "link->dangling"
    if isinstance(e, dict):
        return "link->dir"
    return "link->file" if e[0] == "f" else "link->link"


def canon(t, salt):
    out = {}
    for k, v in t.items():
        if isinstance(v, dict):
            out[k] = canon(v, salt)
        elif v[0] == "f":
            b = payload(v[1], salt)
            out[k] = ["f", len(b), hashlib.sha1(b).hexdigest()]
        elif v[0] == "l":
            out[k] = ["l", "/".join(v[2]) or "."]
        else:
            out[k] = ["o", v[1]]
    return out


def digest(obj) -> str:
    return hashlib.sha1(json.dumps(obj, sort_keys=True).encode()).hexdigest()[:24]


# ------------------------------------------------------------------ grammar

SIZES = (0, 1, 63, 64, 65, 127, 128, 129)


def family_specs(tier: str) -> dict:
    q = tier != "thorough"
    return {
        # regular files of every size around the sha256/sha512 block, empty dirs, no links
        "sizes": {
            # quick: 4 sizes inside trees (all 8 sizes are still covered by the one-file flip trees and the
            # primitive checks); thorough: all 8 sizes plus a last-byte-flipped variant of each
            "files": [str(s) for s in ((0, 1, 64, 65) if q else SIZES)] + ([] if q else [f"{s}^{s - 1}" for s in SIZES if s]),
            "links": False,
            "outside": [],
            "cousins": False,
        },
        # two file payloads, every inside link kind, every outside link kind
        "links": {
            "files": ["1", "65"],
            "links": True,
            # sib-*: into a SIBLING of the base directory whose name starts with the base's name (string-prefix trap)
            "outside": ["file-rel", "dir-rel", "up", "sib-file"] + ([] if q else ["file-abs", "dangling-rel", "sib-dir"]),
            "cousins": not q,
        },
        # three levels: same-named directories below different parents (a/a/f vs b/a/f)
        "deep3": {"files": ["1", "65"], "links": False, "outside": [], "cousins": False, "deep3": True},
    }


def _top_leaves(spec, sp, n):
    a, b = sp["names"]
    o = b if n == a else a
    out = [("f", c) for c in spec["files"]]
    if spec["links"]:
        out += [("l", "rel", (o,)), ("l", "dd", (o,)), ("l", "abs", (o,))]
        out += [("l", "rel", (sp["dangling"][0],))]
        out += [("l", "rel", (o, a)), ("l", "rel", (o, b))]
    out += [("o", k) for k in spec["outside"]]
    return out


def _nested_leaves(spec, sp, d, n):
    a, b = sp["names"]
    m = b if n == a else a
    o = b if d == a else a
    out = [("f", c) for c in spec["files"]]
    if spec["links"]:
        out += [("l", "rel", (d, m)), ("l", "dd", (d, m)), ("l", "abs", (d, m))]
        out += [("l", "rel", (d, sp["dangling"][0]))]
        out += [("l", "rel", ())]
        out += [("l", "rel", (o,))]
        if spec["cousins"]:
            out += [("l", "rel", (o, a)), ("l", "rel", (o, b))]
    out += [("o", k) for k in spec["outside"]]
    return out


def enumerate_trees(spec, sp):
    """Complete product; returns (trees sorted by size, number dropped by the chain filter)."""
    a, b = sp["names"]
    if spec.get("deep3"):
        inner = [None, {}] + [{a: ("f", c)} for c in spec["files"]]
        tops = [None] + [{n: v for n, v in zip((a, b), combo) if v is not None} for combo in itertools.product(inner, inner)]
        out = []
        for combo in itertools.product(tops, tops):
            out.append({n: copy_tree(v) for n, v in zip((a, b), combo) if v is not None})
        out.sort(key=lambda t: (tree_size(t), json.dumps(t, sort_keys=True)))
        return out, 0

    def inner_dirs(d):
        opts = [[None] + _nested_leaves(spec, sp, d, n) + [{}] for n in (a, b)]
        return [{n: v for n, v in zip((a, b), combo) if v is not None} for combo in itertools.product(*opts)]

    top = [[None] + _top_leaves(spec, sp, n) + inner_dirs(n) for n in (a, b)]
    out = []
    dropped = 0
    for combo in itertools.product(*top):
        t = {n: (copy_tree(v) if isinstance(v, dict) else v) for n, v in zip((a, b), combo) if v is not None}
        if spec["links"] and not chain_free(t):
            dropped += 1
            continue
        out.append(t)
    out.sort(key=lambda t: (tree_size(t), json.dumps(t, sort_keys=True)))
    return out, dropped


# ------------------------------------------------------------------ single edits


def _set(t, path, value):
    """Copy of t with `path` set to value (None = delete)."""
    t2 = copy_tree(t)
    cur = t2
    for seg in path[:-1]:
        cur = cur[seg]
    if value is None:
        del cur[path[-1]]
    else:
        cur[path[-1]] = value
    return t2


def edits(t, spec, sp):
    """All single edits of t: yields (kind, detail, edited tree)."""
    a, b = sp["names"]
    fresh = sp["fresh"]
    f0 = ("f", spec["files"][0])
    ents = list(entries(t))
    dirs = [()] + [p for p, v in ents if isinstance(v, dict)]
    for p, v in ents:
        par = p[:-1]
        pard = lookup(t, par)
        if not isinstance(v, dict) and v[0] == "f":
            size, _, pos = v[1].partition("^")
            size = int(size)
            if pos == "" and size:
                for q in sorted({0, size - 1}):
                    yield "byte-flip", {"path": p, "pos": q}, _set(t, p, ("f", f"{size}^{q}"))
            elif pos != "":
                yield "byte-flip", {"path": p, "pos": int(pos)}, _set(t, p, ("f", str(size)))
            yield "file->dir", {"path": p}, _set(t, p, {})
        if isinstance(v, dict):
            yield "dir->file", {"path": p, "empty": not v}, _set(t, p, f0)
        # rename inside the same directory
        for nn in (a, b, fresh):
            if nn not in pard:
                t2 = _set(t, p, None)
                yield "rename", {"path": p, "to": nn, "entry": leaf_kind(t, v)}, _set(t2, par + (nn,), copy_tree(v) if isinstance(v, dict) else v)
        yield "remove", {"path": p, "entry": leaf_kind(t, v)}, _set(t, p, None)
        if not isinstance(v, dict) and v[0] == "l":
            targets = [q for q, w in ents if q != p and q != v[2] and (isinstance(w, dict) or w[0] == "f")]
            targets.append(par + (sp["dangling"][1],))
            for q in targets:
                yield "retarget", {"path": p, "from": leaf_kind(t, v), "to": leaf_kind(t, ("l", v[1], q))}, _set(t, p, ("l", v[1], q))
    for d in dirs:
        dd = lookup(t, d)
        for nn in (a, b, fresh):
            if nn not in dd:
                yield "add", {"dir": d, "name": nn, "what": "file"}, _set(t, d + (nn,), f0)
                yield "add", {"dir": d, "name": nn, "what": "dir"}, _set(t, d + (nn,), {})


# ------------------------------------------------------------------ building on tmpfs


def _target(leaf, path, base, root, sp):
    par = path[:-1]
    if leaf[0] == "l":
        style, loc = leaf[1], leaf[2]
        rel = os.path.relpath("/" + "/".join(loc), "/" + "/".join(par))
        if style == "rel":
            return rel
        if style == "abs":
            return os.path.join(base, *loc)
        # "dd": a detour through ../ that comes back to the same place
        if par:
            return "../" + par[-1] + "/" + rel
        return "../" + os.path.basename(base) + "/" + rel
    kind = leaf[1]
    up = "../" * (len(par) + 1)
    if kind == "file-rel":
        return up + sp["ext_file"]
    if kind == "dir-rel":
        return up + sp["ext_dir"]
    if kind == "up":
        return "../" * len(par) + ".."
    if kind == "file-abs":
        return os.path.join(root, sp["ext_file"])
    if kind == "dangling-rel":
        return up + "nonexistent"
    if kind == "sib-file":
        return up + os.path.basename(base) + "_old/c"
    if kind == "sib-dir":
        return up + os.path.basename(base) + "_old"
    raise ValueError(kind)


def build(t, sp, order: str):
    """Create the tree below a fresh scratch root; returns (root, base).

    order "fwd": names ascending, everything gets an old mtime afterwards;
    order "rev": names descending, links first, current mtimes.
    """
    root = env.fresh_dir("c19")
    base = os.path.join(root, sp["base"])
    with open(os.path.join(root, sp["ext_file"]), "wb") as f:
        f.write(b"outside")
    os.mkdir(os.path.join(root, sp["ext_dir"]))
    os.mkdir(base + "_old")
    with open(os.path.join(base + "_old", "c"), "wb") as f:
        f.write(b"sibling")
    salt = sp["salt"]

    def mk(d, dirpath, path):
        os.mkdir(dirpath)
        names = sorted(d)
        if order == "rev":
            links = [k for k in names if not isinstance(d[k], dict) and d[k][0] in ("l", "o")]
            names = links + [k for k in reversed(names) if k not in links]
        for k in names:
            v = d[k]
            p = os.path.join(dirpath, k)
            if isinstance(v, dict):
                mk(v, p, path + (k,))
            elif v[0] == "f":
                with open(p, "wb") as f:
                    f.write(payload(v[1], salt))
            else:
                os.symlink(_target(v, path + (k,), base, root, sp), p)
            if order == "fwd":
                os.utime(p, (10**9, 10**9), follow_symlinks=False)

    mk(t, base, ())
    return root, base


# ------------------------------------------------------------------ running the implementation

_IMPL = {}


def _impl():
    if not _IMPL:
        from metador_core.util import hashsums as H

        _IMPL["H"] = H
    return _IMPL["H"]


def run_dh(base, alg, form="abs"):
    """-> ("ok", result) | ("raised", text) | ("hang", "")

    form: how the directory is named - "abs" absolute path, "dot" Path(".") from inside it, "rel" its name from its parent."""
    H = _impl()
    cwd = os.getcwd()
    try:
        if form == "dot":
            os.chdir(base)
            arg = Path(".")
        elif form == "rel":
            os.chdir(os.path.dirname(str(base)))
            arg = Path(os.path.basename(str(base)))
        else:
            arg = Path(base)
        with env.watchdog(env.step_timeout()):
            return "ok", H.dir_hashsums(arg, alg)
    except env.StepTimeout:
        return "hang", ""
    except Exception as e:  # noqa: BLE001
        return "raised", f"{type(e).__name__}: {e}"
    finally:
        os.chdir(cwd)


def evaluate(t, sp, orders=("fwd", "rev"), algs=("sha256", "sha512")):
    """Build t once per order and snapshot it. -> {(order, alg): (status, result)}

    sha512 is only taken on the last order (the order comparison is done on sha256)."""
    out = {}
    for o in orders:
        root, base = build(t, sp, o)
        try:
            for alg in algs:
                if alg != "sha256" and o != orders[-1]:
                    continue
                # the second build is also NAMED differently: "." from inside (sha256), by name from the parent (sha512)
                out[(o, alg)] = run_dh(base, alg, "abs" if o == orders[0] else ("dot" if alg == "sha256" else "rel"))
        finally:
            env.rmtree(root)
    return out


def _v(kind, what, **extra):
    sig = {"kind": kind}
    sig.update(extra)
    return {"sig": sig, "what": what}


def link_kinds(t) -> list:
    ks = sorted({leaf_kind(t, v) for _, v in entries(t) if not isinstance(v, dict) and v[0] in ("l", "o")})
    return ks if len(ks) <= 1 else ["several"]


def _outside_sig(t) -> list:
    ks = outside_kinds(t)
    return ks if len(ks) <= 1 else ["several"]


def judge_tree(t, sp):
    """Per-tree obligations. -> (violations, info) with info = {"status", "r256", "r512"}."""
    salt = sp["salt"]
    ev = evaluate(t, sp)
    viols = []
    info = {"status": "ok", "r256": None, "r512": None}
    stats = {k: st for k, (st, _) in ev.items()}
    if any(st == "hang" for st in stats.values()):
        info["status"] = "hang"
        return [_v("hang", "dir_hashsums did not return", links=link_kinds(t))], info
    if has_outside(t):
        info["status"] = "outside"
        accepted = [k for k, st in stats.items() if st == "ok"]
        if accepted:
            viols.append(
                _v(
                    "outside-link-accepted",
                    f"the tree contains a symlink leading outside ({outside_kinds(t)}) but dir_hashsums returned "
                    f"{ev[accepted[0]][1]!r} for {sorted(map(list, accepted))}",
                    outside=_outside_sig(t),
                )
            )
        return viols, info
    raised = [k for k, st in stats.items() if st == "raised"]
    if raised:
        if base_links(t) and len(raised) == len(stats):
            # a link to the base directory itself: "inside" is a matter of interpretation, both answers accepted
            info["status"] = "base-link-rejected"
            return viols, info
        info["status"] = "raised"
        viols.append(
            _v(
                "inside-tree-rejected",
                f"no symlink leads outside, yet dir_hashsums raised for {sorted(map(list, raised))}: {ev[raised[0]][1]}",
                links=link_kinds(t),
            )
        )
        return viols, info
    r_f, r_r, r_512 = ev[("fwd", "sha256")][1], ev[("rev", "sha256")][1], ev[("rev", "sha512")][1]
    if r_f != r_r:
        viols.append(
            _v(
                "creation-order-or-mtime-dependent",
                f"same content built in two orders/mtimes (first named by absolute path, second as Path('.') from inside): {r_f!r} != {r_r!r}",
            )
        )
    # file entries == alg:hashlib
    for alg, res in (("sha256", r_r), ("sha512", r_512)):
        for p, v in entries(t):
            if isinstance(v, dict) or v[0] != "f":
                continue
            cur = res
            for seg in p:
                cur = cur.get(seg) if isinstance(cur, dict) else None
            want = alg + ":" + hashlib.new(alg, payload(v[1], salt)).hexdigest()
            if cur != want:
                viols.append(
                    _v(
                        "file-entry-wrong",
                        f"file {p} ({len(payload(v[1], salt))} bytes): entry {cur!r}, expected {want!r}",
                        alg=alg,
                        size=len(payload(v[1], salt)),
                    )
                )
                break
    info["r256"] = digest(r_r)
    info["r512"] = digest(r_512)
    info["raw256"] = r_r
    return viols, info


def judge_pair(t1, t2, sp):
    """Two trees: equal canonical description <=> equal hashsums (both must be accepted trees)."""
    c1, c2 = canon(t1, sp["salt"]), canon(t2, sp["salt"])
    st1, r1 = evaluate(t1, sp, orders=("rev",), algs=("sha256",))[("rev", "sha256")]
    st2, r2 = evaluate(t2, sp, orders=("fwd",), algs=("sha256",))[("fwd", "sha256")]
    if st1 != "ok" or st2 != "ok":
        return None
    if c1 != c2 and r1 == r2:
        return f"different content, equal hashsums {r1!r}"
    if c1 == c2 and r1 != r2:
        return f"equal content, different hashsums {r1!r} != {r2!r}"
    return None


# ------------------------------------------------------------------ primitive (chunking) checks


class _ShortReads(io.RawIOBase):
    """A binary stream that never returns more than `k` bytes per read (legal for raw streams)."""

    def __init__(self, data, k):
        self._b = io.BytesIO(data)
        self._k = k

    def readable(self):
        return True

    def read(self, n=-1):
        if n is None or n < 0:
            n = self._k
        return self._b.read(min(n, self._k))


def judge_primitive(size, sp):
    """hashsum / qualified_hashsum / file_hashsum on one payload size, both algorithms, several chunkings."""
    H = _impl()
    data = payload(str(size), sp["salt"])
    viols = []
    n = 0
    root = env.fresh_dir("c19p")
    try:
        fp = os.path.join(root, "f")
        with open(fp, "wb") as f:
            f.write(data)
        for alg in ("sha256", "sha512"):
            want = hashlib.new(alg, data).hexdigest()
            got = {}
            try:
                with env.watchdog(env.step_timeout()):
                    got["hashsum(bytes)"] = H.hashsum(data, alg)
                    got["hashsum(BytesIO)"] = H.hashsum(io.BytesIO(data), alg)
                    for k in (1, 7, 64, 100):
                        got[f"hashsum(stream, reads<={k})"] = H.hashsum(_ShortReads(data, k), alg)
                    got["qualified_hashsum"] = H.qualified_hashsum(data, alg)
                    got["file_hashsum"] = H.file_hashsum(Path(fp), alg)
            except env.StepTimeout:
                viols.append(_v("hang", f"hashing {size} bytes did not return", alg=alg))
                continue
            except Exception as e:  # noqa: BLE001
                viols.append(_v("primitive-raised", f"hashing {size} bytes raised {type(e).__name__}: {e}", alg=alg))
                continue
            for name, g in got.items():
                n += 1
                w = (alg + ":" + want) if name in ("qualified_hashsum", "file_hashsum") else want
                if g != w:
                    viols.append(_v("digest-wrong", f"{name} of {size} bytes = {g!r}, hashlib says {w!r}", alg=alg, call=name.split("(")[0]))
            # the same file edited IN PLACE (same inode, same size) with its timestamps restored must hash differently
            if size >= 1:
                st = os.stat(fp)
                data2 = bytes([data[0] ^ 0x5A]) + data[1:]
                with open(fp, "r+b") as f:
                    f.write(data2)
                os.utime(fp, ns=(st.st_atime_ns, st.st_mtime_ns))
                n += 2
                try:
                    g2 = H.file_hashsum(Path(fp), alg)
                    d2 = H.dir_hashsums(Path(root), alg)
                except Exception as e:  # noqa: BLE001
                    viols.append(_v("primitive-raised", f"hashing {size} bytes after an in-place edit raised {type(e).__name__}: {e}", alg=alg))
                else:
                    w2 = alg + ":" + hashlib.new(alg, data2).hexdigest()
                    if g2 != w2:
                        viols.append(_v("stale-digest-after-in-place-edit", f"file_hashsum after an in-place edit (same size, timestamps restored) of {size} bytes = {g2!r}, hashlib says {w2!r}", alg=alg, call="file_hashsum"))
                    if d2.get("f") != w2:
                        viols.append(_v("stale-digest-after-in-place-edit", f"dir_hashsums entry after an in-place edit of {size} bytes = {d2.get('f')!r}, hashlib says {w2!r}", alg=alg, call="dir_hashsums"))
                with open(fp, "r+b") as f:
                    f.write(data)
                os.utime(fp, ns=(st.st_atime_ns, st.st_mtime_ns))
    finally:
        env.rmtree(root)
    return viols, n


# ------------------------------------------------------------------ pool workers

_W = {}


def worker_init(tier="quick", seed=0):
    sp = spelling(seed)
    _W["sp"] = sp
    _W["spec"] = family_specs(tier)
    _W["fam"] = {}
    _W["canon"] = {}
    for n, spec in _W["spec"].items():
        ts, _ = enumerate_trees(spec, sp)
        _W["fam"][n] = ts
        _W["canon"][n] = {digest(canon(t, sp["salt"])) for t in ts}
    _impl()


def _jt(t):
    return json.loads(json.dumps(t))


def check_tree(item):
    """item = (family, index). Per-tree obligations + every single edit that leaves the grammar."""
    fam, i = item
    sp, spec = _W["sp"], _W["spec"][fam]
    t = _W["fam"][fam][i]
    in_grammar = _W["canon"][fam]
    salt = sp["salt"]
    viols, info = judge_tree(t, sp)
    for v in viols:
        v["input"] = {"tree": _jt(t), "sp": sp}
        v["size"] = tree_size(t)
    out = {
        "c": digest(canon(t, salt)),
        "status": info["status"],
        "r256": info["r256"],
        "r512": info["r512"],
        "builds": 2,
        "edits_in_grammar": 0,
        "edits_built": 0,
        "edits_skipped_chain": 0,
        "edit_kinds": {},
        "viol": viols,
    }
    if info["status"] != "ok":
        return out
    c0 = canon(t, salt)
    r0 = info["raw256"]
    for kind, detail, t2 in edits(t, spec, sp):
        if not chain_free(t2):
            out["edits_skipped_chain"] += 1
            continue
        c2 = canon(t2, salt)
        assert c2 != c0, (kind, detail, t)
        out["edit_kinds"][kind] = out["edit_kinds"].get(kind, 0) + 1
        if digest(c2) in in_grammar:
            out["edits_in_grammar"] += 1  # decided by the global grouping (master)
            continue
        out["edits_built"] += 1
        out["builds"] += 1
        st, r2 = evaluate(t2, sp, orders=("rev",), algs=("sha256",))[("rev", "sha256")]
        if st == "ok" and r2 == r0:
            v = _v(
                "edit-invisible",
                f"single edit {kind} {detail} leaves the hashsums unchanged: {r0!r}",
                edit=kind,
                entry=detail.get("entry") or detail.get("from") or detail.get("what") or "file",
                to=detail.get("to") if kind == "retarget" else None,
            )
            v["input"] = {"tree": _jt(t), "other": _jt(t2), "edit": [kind, _jt(detail)], "sp": sp}
            v["size"] = tree_size(t)
            out["viol"].append(v)
        elif st != "ok" and not (st == "raised" and base_links(t2)):
            v = _v("inside-tree-rejected", f"after single edit {kind} {detail}: dir_hashsums {st}: {r2}", links=link_kinds(t2))
            v["input"] = {"tree": _jt(t2), "sp": sp}
            v["size"] = tree_size(t2)
            out["viol"].append(v)
    return out


def check_flip(item):
    """item = (size, pos): one-file trees, byte flip at every position."""
    size, pos = item
    sp = _W["sp"]
    a = sp["names"][0]
    t1 = {a: ("f", str(size))}
    t2 = {a: ("f", f"{size}^{pos}")}
    why = judge_pair(t1, t2, sp)
    if why is None:
        return None
    v = _v("edit-invisible", f"flipping byte {pos} of a {size}-byte file: {why}", edit="byte-flip", entry="file", to=None)
    v["input"] = {"tree": _jt(t1), "other": _jt(t2), "edit": ["byte-flip", {"pos": pos}], "sp": sp}
    v["size"] = 1
    return v


def check_primitive(size):
    sp = _W["sp"]
    viols, n = judge_primitive(size, sp)
    for v in viols:
        v["input"] = {"prim_size": size, "sp": sp}
        v["size"] = 0
    return viols, n
