"""Harness environment: must be imported before anything from metador_core.

* re-adds the NumPy aliases removed in NumPy 2 that pint 0.21 / bokeh 2.4 still use
  (harness side only; /repo is not touched),
* scratch directory management on tmpfs,
* a repeating-interval watchdog for single steps of real code.
"""
from __future__ import annotations

import atexit
import os
import shutil
import signal
import sys
import tempfile
import warnings

import numpy as np

for _new, _old in (
    ("cumprod", "cumproduct"),
    ("bool_", "bool8"),
    ("prod", "product"),
    ("float64", "float_"),
    ("complex128", "complex_"),
    ("str_", "unicode_"),
    ("bytes_", "string_"),
    ("all", "alltrue"),
    ("any", "sometrue"),
    ("round", "round_"),
    ("trapezoid", "trapz"),
    ("isin", "in1d"),
    ("vstack", "row_stack"),
):
    if not hasattr(np, _old) and hasattr(np, _new):
        setattr(np, _old, getattr(np, _new))

warnings.filterwarnings("ignore")
os.environ.setdefault("PYTHONHASHSEED", "0")

VERIF_DIR = os.path.dirname(os.path.dirname(os.path.abspath(__file__)))
REPO_DIR = os.environ.get("VERIF_REPO", "/repo")


def seed() -> int:
    try:
        return int(os.environ.get("VERIF_SEED", "0"))
    except ValueError:
        return 0


# ---------------------------------------------------------------- scratch space

_SCRATCH_ROOT = None


def scratch_root() -> str:
    """Per-process scratch directory (tmpfs if available), removed at exit."""
    global _SCRATCH_ROOT
    if _SCRATCH_ROOT is None or not os.path.isdir(_SCRATCH_ROOT):
        base = "/dev/shm" if os.path.isdir("/dev/shm") and os.access("/dev/shm", os.W_OK) else tempfile.gettempdir()
        _SCRATCH_ROOT = tempfile.mkdtemp(prefix=f"verif-mc-{os.getpid()}-", dir=base)
        atexit.register(shutil.rmtree, _SCRATCH_ROOT, True)
    return _SCRATCH_ROOT


_counter = [0]


def fresh_dir(prefix: str = "d") -> str:
    """A fresh, empty directory below the scratch root (never reused in a run)."""
    _counter[0] += 1
    p = os.path.join(scratch_root(), f"{prefix}{_counter[0]}")
    os.makedirs(p)
    return p


def rmtree(p: str) -> None:
    shutil.rmtree(p, ignore_errors=True)


# ---------------------------------------------------------------- watchdog


class StepTimeout(BaseException):
    """Raised inside a step of real code that exceeded its time budget.

    BaseException so that `except Exception` in the code under test does not eat it.
    """


def _on_alarm(signum, frame):
    raise StepTimeout()


def install_watchdog() -> None:
    signal.signal(signal.SIGALRM, _on_alarm)


class watchdog:
    """Context manager: raise StepTimeout if the body runs longer than `secs`.

    The timer repeats every 0.2 s after the first expiry, because a one-shot exception may
    land inside a callback whose exceptions are swallowed ("Exception ignored in ...").
    """

    def __init__(self, secs: float = 10.0):
        self.secs = secs

    def __enter__(self):
        signal.setitimer(signal.ITIMER_REAL, self.secs, 0.2)
        return self

    def __exit__(self, *a):
        signal.setitimer(signal.ITIMER_REAL, 0, 0)
        return False


def step_timeout() -> float:
    return float(os.environ.get("VERIF_STEP_TIMEOUT", "20"))
